#!/usr/bin/env python3
"""Driver for the qeep property checks (python3 stdlib only).

  verif.py setup                      build the harness once (warms the Go build cache)
  verif.py check <ID> [--tier T]      run one property's check; exit 0 / 1 (VIOLATION) / 2 (inconclusive)
  verif.py replay <path>              re-check a saved failing case without the PBT library

Every `check` rebuilds the test binary from /repo's current working tree (the harness module
replaces github.com/sahandsafizadeh/qeep by /repo), runs the property's rapid tests in one or
more processes (shards, each with its own PRNG seed derived from VERIF_SEED), merges the
counters the processes dumped and rewrites /verif/evidence/<ID>.json.
"""
import json
import os
import re
import shutil
import subprocess
import sys
import time

ROOT = os.path.dirname(os.path.abspath(__file__))
HARNESS = os.path.join(ROOT, "harness")
BUILD = os.path.join(ROOT, ".build")
EVID = os.path.join(ROOT, "evidence")
REPLAYS = os.path.join(ROOT, "replays")
# development only (seedtool's isolated matrix runs): a copy of the harness whose replace
# directive points at a scratch worktree, and a private output directory. The registered
# commands never set these, so they always build /verif/harness against /repo.
if os.environ.get("VERIF_DEV_EVID"):
    # seedtool's runs against a patched /repo must not overwrite the evidence of the unchanged tree
    EVID = os.environ["VERIF_DEV_EVID"]
if os.environ.get("VERIF_DEV_HARNESS"):
    HARNESS = os.environ["VERIF_DEV_HARNESS"]
    BUILD = os.path.join(os.environ["VERIF_DEV_OUT"], "build")
    EVID = os.path.join(os.environ["VERIF_DEV_OUT"], "evidence")
    REPLAYS = os.path.join(os.environ["VERIF_DEV_OUT"], "replays")
REGRESS = os.path.join(ROOT, "replays", "regress")
FINDINGS = os.path.join(ROOT, "known_findings.json")

sys.path.insert(0, ROOT)
from checks_meta import META  # noqa: E402


def goenv():
    env = dict(os.environ)
    env.update({
        "GOFLAGS": "-mod=mod",
        "GOPROXY": "off",
        "GOSUMDB": "off",
        "GOTOOLCHAIN": "local",
        "GONOSUMDB": "*",
        "GONOSUMCHECK": "1",
    })
    return env


def log(*a):
    print(*a, flush=True)


def build(race=False):
    """go test -c of the checks package against /repo's working tree."""
    os.makedirs(BUILD, exist_ok=True)
    # keep the harness go.sum in step with the repository's (no network: both are on disk)
    out = os.path.join(BUILD, "checks.%d%s.test" % (os.getpid(), ".race" if race else ""))
    cmd = ["go", "test", "-c", "-vet=off", "-o", out]
    if race:
        cmd.append("-race")
    cmd.append("./checks")
    t0 = time.time()
    p = subprocess.run(cmd, cwd=HARNESS, env=goenv(), stdout=subprocess.PIPE, stderr=subprocess.STDOUT, text=True)
    if p.returncode != 0:
        log("BUILD FAILED (infrastructure, exit 2):")
        log(p.stdout[-4000:])
        return None
    log("built %s in %.1fs" % (os.path.basename(out), time.time() - t0))
    return out


def load_findings():
    try:
        with open(FINDINGS) as f:
            return json.load(f)
    except FileNotFoundError:
        return {"findings": [], "fixed": []}


def run_shards(binary, pid, meta, tier, seed, shards, scale, extra_env=None):
    """Start all shards in parallel; return list of dicts with rc/output/part/replay paths."""
    rundir = os.path.join(BUILD, "run.%d" % os.getpid())
    os.makedirs(rundir, exist_ok=True)
    procs = []
    timeout = meta.get("timeout", {}).get(tier, 1500 if tier == "thorough" else 600)
    for sh in range(shards):
        rs = 1 + seed * 1000003 + sh * 7919
        cwd = os.path.join(rundir, "s%d" % sh)
        os.makedirs(cwd, exist_ok=True)
        part = os.path.join(cwd, "part.json")
        rep = os.path.join(REPLAYS, "%s-%s-seed%d-shard%d.json" % (pid, tier, seed, sh))
        if os.path.exists(rep):
            os.remove(rep)
        env = goenv()
        env.update({
            "VERIF_TIER": tier,
            "VERIF_SCALE": repr(scale),
            "VERIF_OUT": part,
            "VERIF_REPLAY_OUT": rep,
            "VERIF_PROPERTY": pid,
            "VERIF_FINDINGS": FINDINGS,
            "VERIF_SHARD": str(sh),
            "VERIF_CASEDIR": cwd,
        })
        if extra_env:
            env.update(extra_env)
        cmd = [binary, "-test.run", meta["run"], "-test.v", "-test.timeout", "%ds" % timeout,
               "-rapid.seed=%d" % rs, "-rapid.nofailfile", "-rapid.shrinktime=%s" % meta.get("shrinktime", "20s")]
        outf = open(os.path.join(cwd, "out.txt"), "w")
        p = subprocess.Popen(cmd, cwd=cwd, env=env, stdout=outf, stderr=subprocess.STDOUT)
        procs.append({"p": p, "outf": outf, "cwd": cwd, "part": part, "replay": rep, "shard": sh, "rseed": rs})
    deadline = time.time() + timeout + 60
    for pr in procs:
        try:
            pr["rc"] = pr["p"].wait(timeout=max(1, deadline - time.time()))
        except subprocess.TimeoutExpired:
            pr["p"].kill()
            pr["p"].wait()
            pr["rc"] = "timeout"
        pr["outf"].close()
        with open(os.path.join(pr["cwd"], "out.txt"), errors="replace") as f:
            pr["out"] = f.read()
    return procs, rundir


def merge(procs):
    tot = {"evaluations": 0, "nontrivial_total": 0, "classes": {}, "discards": {}, "known": {}, "known_sample": {},
           "samples": [], "notes": {}, "max_rel_err": 0.0, "failures": 0}
    hashes = set()
    for pr in procs:
        try:
            with open(pr["part"]) as f:
                d = json.load(f)
        except (OSError, ValueError):
            continue
        tot["evaluations"] += d.get("evaluations", 0)
        tot["nontrivial_total"] += d.get("nontrivial_total", 0)
        tot["failures"] += d.get("failures", 0)
        hashes.update(d.get("hashes") or [])
        for k in ("classes", "discards", "known"):
            for n, v in (d.get(k) or {}).items():
                tot[k][n] = tot[k].get(n, 0) + v
        for n, v in (d.get("known_sample") or {}).items():
            tot["known_sample"].setdefault(n, v)
        tot["notes"].update(d.get("notes") or {})
        tot["max_rel_err"] = max(tot["max_rel_err"], d.get("max_rel_err", 0.0))
        for s in d.get("samples") or []:
            if len(tot["samples"]) < 8:
                tot["samples"].append(s)
    tot["distinct_nontrivial"] = len(hashes)
    return tot


def passed_counts(out):
    return [int(x) for x in re.findall(r"OK, passed (\d+) tests", out)]


def regress_files(pid):
    if not os.path.isdir(REGRESS):
        return []
    res = []
    for fn in sorted(os.listdir(REGRESS)):
        if not fn.endswith(".json"):
            continue
        path = os.path.join(REGRESS, fn)
        try:
            with open(path) as f:
                if json.load(f).get("property") == pid:
                    res.append(path)
        except (OSError, ValueError):
            pass
    return res


def run_replay(binary, path, timeout=300):
    env = goenv()
    env.update({"VERIF_REPLAY_IN": os.path.abspath(path), "VERIF_FINDINGS": FINDINGS})
    cwd = os.path.join(BUILD, "replay.%d" % os.getpid())
    os.makedirs(cwd, exist_ok=True)
    try:
        p = subprocess.run([binary, "-test.run", "^TestReplay$", "-test.v", "-test.timeout", "%ds" % timeout],
                           cwd=cwd, env=env, stdout=subprocess.PIPE, stderr=subprocess.STDOUT, text=True, timeout=timeout + 30)
        return p.returncode, p.stdout
    except subprocess.TimeoutExpired:
        return "timeout", ""
    finally:
        shutil.rmtree(cwd, ignore_errors=True)


def write_evidence(pid, tier, seed, meta, tot, wall, violations, extra=None):
    os.makedirs(EVID, exist_ok=True)
    cov = {
        "evaluations": tot["evaluations"],
        "distinct_nontrivial": tot["distinct_nontrivial"],
        "nontrivial_total": tot["nontrivial_total"],
        "rule": meta["rule"],
        "samples": tot["samples"],
        "classes": dict(sorted(tot["classes"].items())),
        "discards": tot["discards"],
        "known_finding_matches": tot["known"],
        "max_observed_relative_deviation": tot["max_rel_err"],
        "oracle": meta["oracle"],
    }
    if tot["notes"]:
        cov["notes"] = tot["notes"]
    if extra:
        cov.update(extra)
    ev = {
        "property_id": pid,
        "tier": tier,
        "seed": seed,
        "level": "exploration",
        "coverage": cov,
        "assumptions": meta["assumptions"],
        "wall_s": round(wall, 2),
        "violations": violations,
    }
    tmp = os.path.join(EVID, ".%s.json.tmp" % pid)
    with open(tmp, "w") as f:
        json.dump(ev, f, indent=1)
    os.replace(tmp, os.path.join(EVID, "%s.json" % pid))


def cmd_check(pid, tier):
    t0 = time.time()
    if pid not in META:
        log("unknown property", pid)
        return 2
    meta = META[pid]
    seed = int(os.environ.get("VERIF_SEED", "0") or 0)
    os.makedirs(REPLAYS, exist_ok=True)
    race = bool(meta.get("race"))
    binary = build(race=race)
    if binary is None:
        return 2
    rundir = None
    try:
        # 1. regression replays (seconds)
        for path in regress_files(pid):
            rc, out = run_replay(binary, path)
            if rc == "timeout":
                log("regression replay timed out (inconclusive):", path)
                return 2
            if rc != 0:
                log(out[-3000:])
                tot = merge([])
                write_evidence(pid, tier, seed, meta, tot, time.time() - t0, 1, {"failed_regression_replay": path})
                log("VIOLATION property=%s replay=%s" % (pid, path))
                return 1
        # 2. generated search
        shards = meta["shards"][tier]
        scale = meta["scale"][tier]
        procs, rundir = run_shards(binary, pid, meta, tier, seed, shards, scale, meta.get("env"))
        tot = merge(procs)
        violation = None
        inconclusive = []
        requested_ok = True
        for pr in procs:
            rc = pr["rc"]
            if rc == 0:
                continue
            if rc == "timeout":
                inconclusive.append("shard %d: timeout" % pr["shard"])
                continue
            race_hit = race and ("DATA RACE" in pr["out"] or rc == 66)
            if os.path.exists(pr["replay"]) or race_hit:
                if violation is None:
                    violation = pr
                continue
            # non-zero exit without a recorded failing case: harness trouble, not a verdict
            inconclusive.append("shard %d: exit %s without a failing case" % (pr["shard"], rc))
        extra = {"shards": shards, "cases_scale": scale,
                 "rapid_passed_per_test": [passed_counts(pr["out"]) for pr in procs]}
        # thorough tier: bounded native coverage-guided fuzzing of the same generators
        if violation is None and not inconclusive and tier == "thorough" and meta.get("fuzz"):
            fz = native_fuzz(pid, meta, seed)
            extra["native_fuzz"] = {k: fz[k] for k in ("target", "seconds", "execs", "new_interesting")}
            if fz["replay"]:
                write_evidence(pid, tier, seed, meta, tot, time.time() - t0, 1, extra)
                log(tail(fz["out"]))
                log("VIOLATION property=%s replay=%s" % (pid, fz["replay"]))
                return 1
            if fz["rc"] != 0:
                log(tail(fz["out"]))
                inconclusive.append("native fuzzing exited with %s without a recorded failing case" % fz["rc"])
        if violation is not None:
            rep = violation["replay"]
            if race and not os.path.exists(rep):
                rep = race_replay(violation, pid, tier, seed)
            log(tail(violation["out"]))
            write_evidence(pid, tier, seed, meta, tot, time.time() - t0, 1, extra)
            log("VIOLATION property=%s replay=%s" % (pid, rep))
            return 1
        got = sum(sum(passed_counts(pr["out"])) for pr in procs)
        want = tot["classes"].get("requested_cases", 0)
        if violation is None and not inconclusive and got < want:
            inconclusive.append("rapid ran %d of %d requested cases (deadline hit)" % (got, want))
        if inconclusive:
            for pr in procs:
                if pr["rc"] != 0:
                    log(tail(pr["out"]))
            log("INCONCLUSIVE (exit 2): " + "; ".join(inconclusive))
            return 2
        # 3. sanity of the run itself: required classes must be populated
        missing = [c for c in meta.get("required_classes", []) if tot["classes"].get(c, 0) == 0]
        if missing or tot["evaluations"] == 0 or tot["distinct_nontrivial"] < 2:
            log("INCONCLUSIVE (exit 2): generator did not produce required classes %s (evaluations=%d, distinct non-trivial=%d)"
                % (missing, tot["evaluations"], tot["distinct_nontrivial"]))
            write_evidence(pid, tier, seed, meta, tot, time.time() - t0, 0, extra)
            return 2
        write_evidence(pid, tier, seed, meta, tot, time.time() - t0, 0, extra)
        # known findings: one line per listed open finding of this property
        for f in load_findings().get("findings", []):
            if f.get("property") == pid and f.get("status") == "open":
                n = tot["known"].get(f["id"], 0)
                log("KNOWN-FINDING: property=%s %s [%s; matched by %d generated cases in this run]" % (pid, f["what"], f["id"], n))
        log("OK property=%s tier=%s seed=%d evaluations=%d distinct_nontrivial=%d wall=%.1fs"
            % (pid, tier, seed, tot["evaluations"], tot["distinct_nontrivial"], time.time() - t0))
        return 0
    finally:
        try:
            os.remove(binary)
        except OSError:
            pass
        if rundir:
            shutil.rmtree(rundir, ignore_errors=True)


def native_fuzz(pid, meta, seed):
    """go test -fuzz on a scratch copy of the harness (crashers land in the copy's testdata,
    the failing case itself is written by the target as the usual replay JSON)."""
    target = meta["fuzz"]["target"]
    secs = int(meta["fuzz"].get("seconds", 60))
    work = os.path.join(BUILD, "fuzz.%d" % os.getpid())
    shutil.rmtree(work, ignore_errors=True)
    shutil.copytree(HARNESS, work)
    rep = os.path.join(REPLAYS, "%s-thorough-seed%d-fuzz.json" % (pid, seed))
    if os.path.exists(rep):
        os.remove(rep)
    env = goenv()
    env.update({"VERIF_TIER": "thorough", "VERIF_REPLAY_OUT": rep, "VERIF_PROPERTY": pid, "VERIF_FINDINGS": FINDINGS})
    cmd = ["go", "test", "./checks", "-run", "^$", "-fuzz", "^%s$" % target, "-fuzztime", "%ds" % secs]
    res = {"target": target, "seconds": secs, "execs": 0, "new_interesting": 0, "replay": None, "rc": 0, "out": ""}
    try:
        p = subprocess.run(cmd, cwd=work, env=env, stdout=subprocess.PIPE, stderr=subprocess.STDOUT, text=True, timeout=secs + 600)
        res["rc"], res["out"] = p.returncode, p.stdout
    except subprocess.TimeoutExpired as e:
        res["rc"], res["out"] = "timeout", (e.stdout or "")
    finally:
        shutil.rmtree(work, ignore_errors=True)
    m = re.findall(r"execs: (\d+) .*?new interesting: (\d+)", res["out"])
    if m:
        res["execs"], res["new_interesting"] = int(m[-1][0]), int(m[-1][1])
    if os.path.exists(rep):
        res["replay"] = rep
    return res


def race_replay(pr, pid, tier, seed):
    """C20: the racing case is the last one written to the shard's case file before the
    detector stopped the process; keep it, with the report, as the replay."""
    rep = pr["replay"]
    cases = os.path.join(pr["cwd"], "c20.cases.jsonl")
    last = None
    try:
        with open(cases) as f:
            for line in f:
                if line.strip():
                    last = line
    except OSError:
        pass
    report = pr["out"]
    i = report.find("WARNING: DATA RACE")
    doc = {"property": pid, "check": "C20/concurrent", "message": "data race reported by the Go race detector",
           "case": json.loads(last) if last else None, "race_report": report[i:i + 6000] if i >= 0 else report[-3000:]}
    with open(rep, "w") as f:
        json.dump(doc, f, indent=1)
    return rep


def tail(s, n=60):
    lines = [l for l in s.splitlines() if "[rapid] draw" not in l]
    return "\n".join(lines[-n:])


def cmd_replay(path):
    with open(path) as f:
        doc = json.load(f)
    pid = doc.get("property", "")
    race = bool(META.get(pid, {}).get("race"))
    binary = build(race=race)
    if binary is None:
        return 2
    try:
        rc, out = run_replay(binary, path)
        log(tail(out, 30))
        if rc == 0:
            log("replay passes: %s" % path)
            return 0
        if rc == "timeout":
            return 2
        log("VIOLATION property=%s replay=%s" % (pid, path))
        return 1
    finally:
        try:
            os.remove(binary)
        except OSError:
            pass


def cmd_setup():
    b = build(race=False)
    if b is None:
        return 2
    os.remove(b)
    b = build(race=True)
    if b is None:
        return 2
    os.remove(b)
    return 0


def main(argv):
    if len(argv) >= 2 and argv[1] == "setup":
        return cmd_setup()
    if len(argv) >= 3 and argv[1] == "check":
        tier = os.environ.get("VERIF_TIER", "quick")
        if "--tier" in argv:
            tier = argv[argv.index("--tier") + 1]
        if tier not in ("quick", "thorough"):
            tier = "quick"
        return cmd_check(argv[2], tier)
    if len(argv) >= 3 and argv[1] == "replay":
        return cmd_replay(argv[2])
    log(__doc__)
    return 2


if __name__ == "__main__":
    sys.exit(main(sys.argv))
