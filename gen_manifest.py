#!/usr/bin/env python3
"""Writes MANIFEST.json from checks_meta.py (so that commands, levels and the not_applicable
list cannot drift apart)."""
import json, os, sys
ROOT = os.path.dirname(os.path.abspath(__file__))
sys.path.insert(0, ROOT)
from checks_meta import META, NOT_BUILT

ALL = ["C%02d" % i for i in range(1, 21)]
checks = []
for pid in ALL:
    if pid not in META:
        continue
    m = META[pid]
    checks.append({
        "property_id": pid,
        "quick_cmd": "python3 verif.py check %s --tier quick" % pid,
        "thorough_cmd": "python3 verif.py check %s --tier thorough" % pid,
        "evidence_file": "/verif/evidence/%s.json" % pid,
        "replay_cmd_template": "python3 verif.py replay {path}",
        "engine": "rapid-harness",
        "level_claimed": {
            "category": "exploration",
            "text": m["level_text"],
            "design_ref": "DESIGN.md section 3, %s" % pid,
        },
        "level_note": m["level_note"],
        "technique": m["technique"],
    })
man = {
    "version": 1,
    "setup_cmd": "python3 verif.py setup",
    "hooks": {
        "guard": "verif",
        "enable": "no source hooks are needed: every observation point is public API; checks build /repo's working tree as is (go test -c with a replace directive)",
        "baseline_off_cmd": "cd /repo && GOFLAGS=-mod=mod GOPROXY=off GOTOOLCHAIN=local go test -vet=off -count=1 ./...",
        "source_commits": [],
        "add_only": True,
    },
    "engines": [{
        "name": "rapid-harness",
        "path": "/verif/harness",
        "serves_properties": [c["property_id"] for c in checks],
        "kind_free_text": "Go module with pgregory.net/rapid v1.3.0 generators (value-aware program / history generation), a flat dual-number reference model, shrinking to JSON replay files; driver verif.py shards by seed, merges evidence; thorough tier adds native go fuzzing where byte-decodable",
    }],
    "checks": checks,
    "notes": "exit 0 = held on everything explored, exit 1 + VIOLATION line = violation with replay, exit 2 = inconclusive (build failure, timeout, generator did not reach required classes). Known findings are listed in known_findings.json.",
    "not_applicable": [{"property_id": p, "reason": NOT_BUILT.get(p, "check not built yet")} for p in ALL if p not in META],
}
with open(os.path.join(ROOT, "MANIFEST.json"), "w") as f:
    json.dump(man, f, indent=1)
print("MANIFEST.json: %d checks, %d not claimed" % (len(checks), len(man["not_applicable"])))
