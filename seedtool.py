#!/usr/bin/env python3
"""Seeded-change bookkeeping (development tool, not part of any registered check).

  seedtool.py import <dir> <k> <id>    validate change<k>.diff / demo<k>_test.go / meta<k>.json from <dir> in a
                                       scratch worktree (compiles, suite passes, demo fails with / passes without)
                                       and store them as /verif/seeded/<id>/
  seedtool.py run [--tier T] [--checks C01,C02|own|all] [ids...]
                                       apply each stored patch to /repo, run the checks, undo it straight away;
                                       results go to /verif/seeded/results.json
"""
import json
import os
import shutil
import subprocess
import sys
import time

ROOT = os.path.dirname(os.path.abspath(__file__))
SEEDED = os.path.join(ROOT, "seeded")
ENV = dict(os.environ, GOFLAGS="-mod=mod", GOPROXY="off", GOSUMDB="off", GOTOOLCHAIN="local")


def sh(cmd, cwd=None, timeout=900):
    p = subprocess.run(cmd, cwd=cwd, env=ENV, stdout=subprocess.PIPE, stderr=subprocess.STDOUT, text=True, timeout=timeout)
    return p.returncode, p.stdout


def cmd_import(src, k, sid):
    patch = os.path.join(src, "change%s.diff" % k)
    demo = os.path.join(src, "demo%s_test.go" % k)
    meta = os.path.join(src, "meta%s.json" % k)
    for f in (patch, demo, meta):
        if not os.path.exists(f):
            print("missing", f)
            return 1
    with open(meta) as f:
        race = json.load(f).get("property") == "C20"
    demo_cmd = ["go", "test", "-vet=off", "-count=1"] + (["-race"] if race else []) + ["./demo/"]
    wt = "/tmp/seedval-%d" % os.getpid()
    rc, out = sh(["git", "-C", "/repo", "worktree", "add", "-q", "--detach", wt, "HEAD"])
    if rc != 0:
        print(out)
        return 1
    ran = []
    try:
        os.makedirs(os.path.join(wt, "demo"))
        shutil.copy(demo, os.path.join(wt, "demo", "demo_test.go"))
        rc, out = sh(demo_cmd, cwd=wt)
        ran.append("unchanged tree: go test ./demo/ -> rc %d" % rc)
        if rc != 0:
            print("demo does not pass on the unchanged tree:\n", out[-2000:])
            return 1
        rc, out = sh(["git", "apply", patch], cwd=wt)
        if rc != 0:
            print("patch does not apply:\n", out)
            return 1
        rc, out = sh(["go", "build", "./..."], cwd=wt)
        if rc != 0:
            print("does not build:\n", out[-2000:])
            return 1
        shutil.rmtree(os.path.join(wt, "demo"))
        rc, out = sh(["go", "test", "-vet=off", "-count=1", "./..."], cwd=wt)
        ran.append("with change: go test ./... (existing suite) -> rc %d" % rc)
        if rc != 0:
            print("existing suite fails with the change:\n", out[-2000:])
            return 1
        os.makedirs(os.path.join(wt, "demo"))
        shutil.copy(demo, os.path.join(wt, "demo", "demo_test.go"))
        rc, out = sh(demo_cmd, cwd=wt)
        ran.append("with change: go test ./demo/ -> rc %d" % rc)
        if rc == 0:
            print("demo passes with the change applied (change is not demonstrated)")
            return 1
        demo_out = out[-1500:]
    finally:
        sh(["git", "-C", "/repo", "worktree", "remove", "--force", wt])
        shutil.rmtree(wt, ignore_errors=True)
    dst = os.path.join(SEEDED, sid)
    os.makedirs(dst, exist_ok=True)
    shutil.copy(patch, os.path.join(dst, "patch.diff"))
    shutil.copy(demo, os.path.join(dst, "demo_test.go"))
    with open(meta) as f:
        m = json.load(f)
    m["id"] = sid
    m["validated"] = ran
    m["demo_failure_excerpt"] = demo_out
    with open(os.path.join(dst, "meta.json"), "w") as f:
        json.dump(m, f, indent=1)
    print("stored", dst)
    return 0


def cmd_import_ref(src, k, sid):
    """A behaviour-preserving change (false-alarm probe): must build and keep the suite green."""
    patch = os.path.join(src, "change%s.diff" % k)
    meta = os.path.join(src, "meta%s.json" % k)
    for f in (patch, meta):
        if not os.path.exists(f):
            print("missing", f)
            return 1
    wt = "/tmp/seedval-%d" % os.getpid()
    rc, out = sh(["git", "-C", "/repo", "worktree", "add", "-q", "--detach", wt, "HEAD"])
    if rc != 0:
        print(out)
        return 1
    try:
        rc, out = sh(["git", "apply", patch], cwd=wt)
        if rc != 0:
            print("patch does not apply:\n", out)
            return 1
        rc, out = sh(["go", "build", "./..."], cwd=wt)
        if rc != 0:
            print("does not build:\n", out[-2000:])
            return 1
        rc, out = sh(["go", "test", "-vet=off", "-count=1", "./..."], cwd=wt)
        if rc != 0:
            print("existing suite fails with the change:\n", out[-2000:])
            return 1
    finally:
        sh(["git", "-C", "/repo", "worktree", "remove", "--force", wt])
        shutil.rmtree(wt, ignore_errors=True)
    dst = os.path.join(SEEDED, sid)
    os.makedirs(dst, exist_ok=True)
    shutil.copy(patch, os.path.join(dst, "patch.diff"))
    with open(meta) as f:
        m = json.load(f)
    m["id"] = sid
    m["property"] = "none (behaviour-preserving change: every check must stay silent)"
    m["kind"] = "refactoring"
    m["validated"] = ["with change: go build ./... and go test ./... (existing suite) pass"]
    with open(os.path.join(dst, "meta.json"), "w") as f:
        json.dump(m, f, indent=1)
    print("stored", dst)
    return 0


def repo_clean():
    rc, out = sh(["git", "-C", "/repo", "status", "--porcelain"])
    return out.strip() == ""


def cmd_run(args):
    tier = "quick"
    checks = "own"
    ids = []
    i = 0
    while i < len(args):
        if args[i] == "--tier":
            tier = args[i + 1]
            i += 2
        elif args[i] == "--checks":
            checks = args[i + 1]
            i += 2
        else:
            ids.append(args[i])
            i += 1
    if not ids:
        ids = sorted(d for d in os.listdir(SEEDED) if os.path.isdir(os.path.join(SEEDED, d)))
    resf = os.path.join(SEEDED, "results.json")
    try:
        with open(resf) as f:
            results = json.load(f)
    except (OSError, ValueError):
        results = {}
    if not repo_clean():
        print("/repo is not clean; refusing")
        return 1
    for sid in ids:
        d = os.path.join(SEEDED, sid)
        with open(os.path.join(d, "meta.json")) as f:
            meta = json.load(f)
        if checks == "own":
            props = [meta["property"]]
        elif checks == "all":
            props = ["C%02d" % k for k in range(1, 21)]
        else:
            props = checks.split(",")
        rc, out = sh(["git", "-C", "/repo", "apply", os.path.join(d, "patch.diff")])
        if rc != 0:
            print(sid, "patch does not apply:", out)
            continue
        try:
            for p in props:
                t0 = time.time()
                os.makedirs("/tmp/seed-evid", exist_ok=True)
                pr = subprocess.run(["python3", os.path.join(ROOT, "verif.py"), "check", p, "--tier", tier], cwd=ROOT,
                                    env=dict(ENV, VERIF_DEV_EVID="/tmp/seed-evid"), stdout=subprocess.PIPE, stderr=subprocess.STDOUT, text=True, timeout=3600)
                rc, out = pr.returncode, pr.stdout
                line = [l for l in out.splitlines() if l.startswith("VIOLATION") or l.startswith("OK ") or "INCONCLUSIVE" in l]
                verdict = {0: "missed", 1: "caught", 2: "inconclusive"}.get(rc, "rc%s" % rc)
                msg = ""
                if rc == 1:
                    for l in out.splitlines():
                        if ("common_test.go" in l or "failed after" in l) and ": " in l:
                            msg = l.strip()[:400]
                            break
                results.setdefault(sid, {})["%s/%s" % (p, tier)] = {"verdict": verdict, "wall_s": round(time.time() - t0, 1), "line": (line[-1] if line else "")[:300], "message": msg}
                print("%-28s %s %-8s %-12s %5.1fs  %s" % (sid, p, tier, verdict, time.time() - t0, msg[:160]))
        finally:
            sh(["git", "-C", "/repo", "checkout", "--", "."])
            # new files a patch may have added
            sh(["git", "-C", "/repo", "clean", "-fdq"])
        with open(resf, "w") as f:
            json.dump(results, f, indent=1, sort_keys=True)
    return 0


def matrix_one(sid, props, tier):
    """Run checks against one seeded change in isolation: scratch worktree + copy of the harness."""
    d = os.path.join(SEEDED, sid)
    base = "/tmp/seedmx-%s-%d" % (sid, os.getpid())
    wt = base + "-wt"
    hz = base + "-harness"
    out = base + "-out"
    res = {}
    rc, o = sh(["git", "-C", "/repo", "worktree", "add", "-q", "--detach", wt, "HEAD"])
    if rc != 0:
        return {"error": o}
    try:
        rc, o = sh(["git", "apply", os.path.join(d, "patch.diff")], cwd=wt)
        if rc != 0:
            return {"error": "patch does not apply: " + o}
        shutil.copytree(os.environ.get("VERIF_SEED_HARNESS", os.path.join(ROOT, "harness")), hz, ignore=shutil.ignore_patterns(".build"))
        sh(["go", "mod", "edit", "-replace", "github.com/sahandsafizadeh/qeep=" + wt], cwd=hz)
        os.makedirs(out, exist_ok=True)
        env = dict(ENV, VERIF_DEV_HARNESS=hz, VERIF_DEV_OUT=out)
        for p in props:
            t0 = time.time()
            pr = subprocess.run(["python3", os.path.join(ROOT, "verif.py"), "check", p, "--tier", tier], cwd=ROOT, env=env,
                                stdout=subprocess.PIPE, stderr=subprocess.STDOUT, text=True, timeout=7200)
            verdict = {0: "missed", 1: "caught", 2: "inconclusive"}.get(pr.returncode, "rc%s" % pr.returncode)
            msg = ""
            if pr.returncode == 1:
                for l in pr.stdout.splitlines():
                    if ("common_test.go" in l or "failed after" in l) and ": " in l:
                        msg = l.strip()[:300]
                        break
            res["%s/%s" % (p, tier)] = {"verdict": verdict, "wall_s": round(time.time() - t0, 1), "message": msg}
    finally:
        sh(["git", "-C", "/repo", "worktree", "remove", "--force", wt])
        shutil.rmtree(wt, ignore_errors=True)
        shutil.rmtree(hz, ignore_errors=True)
        shutil.rmtree(out, ignore_errors=True)
    return res


def cmd_matrix(args):
    from concurrent.futures import ThreadPoolExecutor
    tier = "quick"
    jobs = 4
    ids = []
    props = ["C%02d" % k for k in range(1, 21)]
    i = 0
    while i < len(args):
        if args[i] == "--tier":
            tier = args[i + 1]; i += 2
        elif args[i] == "--jobs":
            jobs = int(args[i + 1]); i += 2
        elif args[i] == "--checks":
            props = args[i + 1].split(","); i += 2
        else:
            ids.append(args[i]); i += 1
    if not ids:
        ids = sorted(d for d in os.listdir(SEEDED) if os.path.isdir(os.path.join(SEEDED, d)))

    def props_of(sid):
        if props == ["own"]:
            with open(os.path.join(SEEDED, sid, "meta.json")) as f:
                return [json.load(f)["property"]]
        return props
    resf = os.environ.get("VERIF_SEED_RESULTS", os.path.join(SEEDED, "matrix.json"))
    try:
        with open(resf) as f:
            results = json.load(f)
    except (OSError, ValueError):
        results = {}
    with ThreadPoolExecutor(max_workers=jobs) as ex:
        futs = {sid: ex.submit(matrix_one, sid, props_of(sid), tier) for sid in ids}
        for sid, fu in futs.items():
            r = fu.result()
            results.setdefault(sid, {}).update(r)
            caught = sorted(k for k, v in r.items() if isinstance(v, dict) and v.get("verdict") == "caught")
            print("%-12s caught by: %s" % (sid, " ".join(caught) or "-"), flush=True)
            with open(resf, "w") as f:
                json.dump(results, f, indent=1, sort_keys=True)
    return 0


if __name__ == "__main__":
    if len(sys.argv) >= 5 and sys.argv[1] == "import-ref":
        sys.exit(cmd_import_ref(sys.argv[2], sys.argv[3], sys.argv[4]))
    if len(sys.argv) >= 2 and sys.argv[1] == "matrix":
        sys.exit(cmd_matrix(sys.argv[2:]))
    if len(sys.argv) >= 5 and sys.argv[1] == "import":
        sys.exit(cmd_import(sys.argv[2], sys.argv[3], sys.argv[4]))
    if len(sys.argv) >= 2 and sys.argv[1] == "run":
        sys.exit(cmd_run(sys.argv[2:]))
    print(__doc__)
    sys.exit(2)
