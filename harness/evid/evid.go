// Package evid keeps the counters a check reports as evidence: evaluations, the set of
// distinct non-trivial cases (64-bit hashes of their canonical JSON), the class histogram of
// what the generator produced, discards, known-finding matches and a few samples.
package evid

import (
	"encoding/json"
	"hash/fnv"
	"os"
	"sort"
	"sync"
)

type Part struct {
	Property    string            `json:"property"`
	Evaluations int               `json:"evaluations"`
	NonTrivial  int               `json:"nontrivial_total"`
	Hashes      []uint64          `json:"hashes"`
	Classes     map[string]int    `json:"classes"`
	Discards    map[string]int    `json:"discards"`
	Known       map[string]int    `json:"known"`
	KnownSample map[string]any    `json:"known_sample"`
	Samples     []json.RawMessage `json:"samples"`
	Notes       map[string]string `json:"notes"`
	MaxRelErr   float64           `json:"max_rel_err"`
	Failures    int               `json:"failures"`
}

var (
	mu     sync.Mutex
	hashes = map[uint64]struct{}{}
	P      = Part{Classes: map[string]int{}, Discards: map[string]int{}, Known: map[string]int{}, KnownSample: map[string]any{}, Notes: map[string]string{}}
	// MaxSamples bounds the number of samples kept (the first non-trivial ones).
	MaxSamples = 6
)

func Eval() { mu.Lock(); P.Evaluations++; mu.Unlock() }

func Class(name string) { mu.Lock(); P.Classes[name]++; mu.Unlock() }

func ClassN(name string, n int) { mu.Lock(); P.Classes[name] += n; mu.Unlock() }

func Discard(reason string) { mu.Lock(); P.Discards[reason]++; mu.Unlock() }

func Note(k, v string) { mu.Lock(); P.Notes[k] = v; mu.Unlock() }

func RelErr(r float64) {
	mu.Lock()
	if r > P.MaxRelErr {
		P.MaxRelErr = r
	}
	mu.Unlock()
}

// Known counts a case explained exactly by an open known finding.
func Known(finding string, sample any) {
	mu.Lock()
	P.Known[finding]++
	if _, ok := P.KnownSample[finding]; !ok {
		P.KnownSample[finding] = sample
	}
	mu.Unlock()
}

// NonTrivial records a case that satisfies the property's non-triviality rule. The case is
// hashed from its canonical JSON; the first few are kept as samples.
func NonTrivial(c any) {
	b, err := json.Marshal(c)
	if err != nil {
		panic(err)
	}
	h := fnv.New64a()
	h.Write(b)
	mu.Lock()
	P.NonTrivial++
	hashes[h.Sum64()] = struct{}{}
	if len(P.Samples) < MaxSamples {
		P.Samples = append(P.Samples, json.RawMessage(b))
	}
	mu.Unlock()
}

// Sample keeps c as a sample regardless of triviality (used when few cases exist).
func Sample(c any) {
	b, _ := json.Marshal(c)
	mu.Lock()
	if len(P.Samples) < MaxSamples {
		P.Samples = append(P.Samples, json.RawMessage(b))
	}
	mu.Unlock()
}

func Failure() { mu.Lock(); P.Failures++; mu.Unlock() }

// Write dumps the partial evidence of this process.
func Write(path, property string) error {
	mu.Lock()
	defer mu.Unlock()
	P.Property = property
	P.Hashes = P.Hashes[:0]
	for h := range hashes {
		P.Hashes = append(P.Hashes, h)
	}
	sort.Slice(P.Hashes, func(i, j int) bool { return P.Hashes[i] < P.Hashes[j] })
	b, err := json.Marshal(P)
	if err != nil {
		return err
	}
	return os.WriteFile(path, b, 0o644)
}

/* ---------- known findings ---------- */

type Finding struct {
	ID       string `json:"id"`
	Property string `json:"property"`
	Matcher  string `json:"matcher"`
	Status   string `json:"status"` // "open" or "fixed"
	What     string `json:"what"`
}

type FindingsFile struct {
	Findings []Finding `json:"findings"`
	Fixed    []string  `json:"fixed"`
}

var findings FindingsFile

func LoadFindings(path string) error {
	b, err := os.ReadFile(path)
	if err != nil {
		if os.IsNotExist(err) {
			return nil
		}
		return err
	}
	return json.Unmarshal(b, &findings)
}

// MatcherOpen reports whether an open finding enables the named matcher for the property.
func MatcherOpen(property, matcher string) bool {
	for _, f := range findings.Findings {
		if f.Status == "open" && f.Matcher == matcher && f.Property == property {
			return true
		}
	}
	return false
}
