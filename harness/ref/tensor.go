package ref

import (
	"errors"
	"fmt"
	"math"
)

// T is a flat row-major reference tensor.
type T struct {
	Shape []int
	E     []D
}

type Range struct{ From, To int }

var ErrInvalid = errors.New("precondition violated")

func inval(f string, a ...any) error { return fmt.Errorf("%w: "+f, append([]any{ErrInvalid}, a...)...) }

func Prod(s []int) int {
	n := 1
	for _, d := range s {
		n *= d
	}
	return n
}
func Cp(s []int) []int { return append([]int{}, s...) }
func EqShape(a, b []int) bool {
	if len(a) != len(b) {
		return false
	}
	for i := range a {
		if a[i] != b[i] {
			return false
		}
	}
	return true
}
func Unravel(i int, s []int) []int {
	idx := make([]int, len(s))
	for k := len(s) - 1; k >= 0; k-- {
		idx[k] = i % s[k]
		i /= s[k]
	}
	return idx
}
func Ravel(idx, s []int) int {
	o := 0
	for k := range s {
		o = o*s[k] + idx[k]
	}
	return o
}

func FromVals(shape []int, vals []float64) T {
	t := T{Cp(shape), make([]D, len(vals))}
	for i, v := range vals {
		t.E[i] = D{V: v}
	}
	return t
}
func (a T) Vals() []float64 {
	v := make([]float64, len(a.E))
	for i, e := range a.E {
		v[i] = e.V
	}
	return v
}
func (a T) Rank() int { return len(a.Shape) }

func ValidDims(s []int) bool {
	for _, d := range s {
		if d <= 0 {
			return false
		}
	}
	return true
}

/* ---------- element-wise ---------- */

func (c *Ctx) Map(a T, f func(D) D) T {
	o := T{Cp(a.Shape), make([]D, len(a.E))}
	for i, e := range a.E {
		o.E[i] = f(e)
	}
	return o
}

// Unary applies one of scale pow exp log sin cos tan sinh cosh tanh.
func (c *Ctx) Unary(op string, a T, f float64) T {
	switch op {
	case "scale":
		return c.Map(a, func(d D) D { return c.Scale(d, f) })
	case "pow":
		return c.Map(a, func(d D) D { return c.Pow(d, f) })
	case "exp":
		return c.Map(a, c.Exp)
	case "log":
		return c.Map(a, c.Log)
	case "sin":
		return c.Map(a, c.Sin)
	case "cos":
		return c.Map(a, c.Cos)
	case "tan":
		return c.Map(a, c.Tan)
	case "sinh":
		return c.Map(a, c.Sinh)
	case "cosh":
		return c.Map(a, c.Cosh)
	case "tanh":
		return c.Map(a, c.Tanh)
	}
	panic("ref: unary op " + op)
}

// BroadcastShape is NumPy right-aligned broadcasting of two shapes.
func BroadcastShape(s1, s2 []int) ([]int, error) {
	n := len(s1)
	if len(s2) > n {
		n = len(s2)
	}
	o := make([]int, n)
	for k := 1; k <= n; k++ {
		d1, d2 := 1, 1
		if k <= len(s1) {
			d1 = s1[len(s1)-k]
		}
		if k <= len(s2) {
			d2 = s2[len(s2)-k]
		}
		switch {
		case d1 == d2:
			o[n-k] = d1
		case d1 == 1:
			o[n-k] = d2
		case d2 == 1:
			o[n-k] = d1
		default:
			return nil, inval("shapes %v and %v are not broadcast-compatible", s1, s2)
		}
	}
	return o, nil
}

// Broadcast expands a to shape (new leading dims, size-1 dims repeated).
func (c *Ctx) Broadcast(a T, shape []int) (T, error) {
	if !ValidDims(shape) {
		return T{}, inval("broadcast shape %v", shape)
	}
	if len(a.Shape) > len(shape) {
		return T{}, inval("broadcast rank %v -> %v", a.Shape, shape)
	}
	off := len(shape) - len(a.Shape)
	for k, d := range a.Shape {
		if d != shape[off+k] && d != 1 {
			return T{}, inval("broadcast %v -> %v", a.Shape, shape)
		}
	}
	o := T{Cp(shape), make([]D, Prod(shape))}
	k := 1.0
	if c != nil && c.BcastAvg {
		k = float64(len(a.E)) / float64(len(o.E))
	}
	src := make([]int, len(a.Shape))
	for i := range o.E {
		idx := Unravel(i, shape)
		for q := range src {
			if a.Shape[q] == 1 {
				src[q] = 0
			} else {
				src[q] = idx[off+q]
			}
		}
		e := a.E[Ravel(src, a.Shape)]
		if k != 1 {
			e = ScaleTangent(e, k)
		}
		o.E[i] = e
	}
	return o, nil
}

func (c *Ctx) zip(a, b T, f func(D, D) D) T {
	o := T{Cp(a.Shape), make([]D, len(a.E))}
	for i := range a.E {
		o.E[i] = f(a.E[i], b.E[i])
	}
	return o
}

func b2f(b bool) float64 {
	if b {
		return 1
	}
	return 0
}

// Binary applies add sub mul div (implicit broadcasting), elmax elmin eq ne gt ge lt le
// (identical shapes required).
func (c *Ctx) Binary(op string, a, b T) (T, error) {
	switch op {
	case "add", "sub", "mul", "div":
		s, err := BroadcastShape(a.Shape, b.Shape)
		if err != nil {
			return T{}, err
		}
		a, _ = c.Broadcast(a, s)
		b, _ = c.Broadcast(b, s)
		switch op {
		case "add":
			return c.zip(a, b, c.Add), nil
		case "sub":
			return c.zip(a, b, c.Sub), nil
		case "mul":
			return c.zip(a, b, c.Mul), nil
		default:
			return c.zip(a, b, c.Div), nil
		}
	}
	if !EqShape(a.Shape, b.Shape) {
		return T{}, inval("%s needs identical shapes: %v vs %v", op, a.Shape, b.Shape)
	}
	switch op {
	case "elmax":
		return c.zip(a, b, c.Max), nil
	case "elmin":
		return c.zip(a, b, c.Min), nil
	case "eq":
		return c.zip(a, b, func(x, y D) D { return C(b2f(x.V == y.V)) }), nil
	case "ne":
		return c.zip(a, b, func(x, y D) D { return C(b2f(x.V != y.V)) }), nil
	case "gt":
		return c.zip(a, b, func(x, y D) D { return C(b2f(x.V > y.V)) }), nil
	case "ge":
		return c.zip(a, b, func(x, y D) D { return C(b2f(x.V >= y.V)) }), nil
	case "lt":
		return c.zip(a, b, func(x, y D) D { return C(b2f(x.V < y.V)) }), nil
	case "le":
		return c.zip(a, b, func(x, y D) D { return C(b2f(x.V <= y.V)) }), nil
	}
	panic("ref: binary op " + op)
}

/* ---------- linear algebra ---------- */

// Dot contracts the last dimension after broadcasting the leading ones.
func (c *Ctx) Dot(a, b T) (T, error) {
	if a.Rank() < 1 || b.Rank() < 1 {
		return T{}, inval("dot needs rank >= 1")
	}
	n := a.Shape[a.Rank()-1]
	if n != b.Shape[b.Rank()-1] {
		return T{}, inval("dot last dims %v vs %v", a.Shape, b.Shape)
	}
	bs, err := BroadcastShape(a.Shape[:a.Rank()-1], b.Shape[:b.Rank()-1])
	if err != nil {
		return T{}, err
	}
	full := append(Cp(bs), n)
	a, _ = c.Broadcast(a, full)
	b, _ = c.Broadcast(b, full)
	o := T{bs, make([]D, Prod(bs))}
	for i := range o.E {
		s := C(0)
		for q := 0; q < n; q++ {
			s = c.Add(s, c.Mul(a.E[i*n+q], b.E[i*n+q]))
		}
		o.E[i] = s
	}
	return o, nil
}

// MatMul multiplies the trailing two dims as matrices for every broadcast batch index.
func (c *Ctx) MatMul(a, b T) (T, error) {
	ra, rb := a.Rank(), b.Rank()
	if ra < 2 || rb < 2 {
		return T{}, inval("matmul needs rank >= 2")
	}
	m, k, k2, p := a.Shape[ra-2], a.Shape[ra-1], b.Shape[rb-2], b.Shape[rb-1]
	if k != k2 {
		return T{}, inval("matmul inner dims %v vs %v", a.Shape, b.Shape)
	}
	bs, err := BroadcastShape(a.Shape[:ra-2], b.Shape[:rb-2])
	if err != nil {
		return T{}, err
	}
	a, _ = c.Broadcast(a, append(Cp(bs), m, k))
	b, _ = c.Broadcast(b, append(Cp(bs), k, p))
	os := append(Cp(bs), m, p)
	o := T{os, make([]D, Prod(os))}
	nb := Prod(bs)
	for bi := 0; bi < nb; bi++ {
		for i := 0; i < m; i++ {
			for j := 0; j < p; j++ {
				s := C(0)
				for q := 0; q < k; q++ {
					s = c.Add(s, c.Mul(a.E[bi*m*k+i*k+q], b.E[bi*k*p+q*p+j]))
				}
				o.E[bi*m*p+i*p+j] = s
			}
		}
	}
	return o, nil
}

func (c *Ctx) Transpose(a T) (T, error) {
	n := a.Rank()
	if n < 2 {
		return T{}, inval("transpose needs rank >= 2")
	}
	os := Cp(a.Shape)
	os[n-1], os[n-2] = os[n-2], os[n-1]
	o := T{os, make([]D, len(a.E))}
	for i := range o.E {
		idx := Unravel(i, os)
		idx[n-1], idx[n-2] = idx[n-2], idx[n-1]
		o.E[i] = a.E[Ravel(idx, a.Shape)]
	}
	return o, nil
}

/* ---------- shape ---------- */

func (c *Ctx) Reshape(a T, shape []int) (T, error) {
	if !ValidDims(shape) || Prod(shape) != len(a.E) {
		return T{}, inval("reshape %v -> %v", a.Shape, shape)
	}
	return T{Cp(shape), append([]D{}, a.E...)}, nil
}
func (c *Ctx) UnSqueeze(a T, dim int) (T, error) {
	if dim < 0 || dim > a.Rank() {
		return T{}, inval("unsqueeze dim %d of %v", dim, a.Shape)
	}
	s := append(Cp(a.Shape[:dim]), 1)
	s = append(s, a.Shape[dim:]...)
	return T{s, append([]D{}, a.E...)}, nil
}
func (c *Ctx) Squeeze(a T, dim int) (T, error) {
	if dim < 0 || dim >= a.Rank() || a.Shape[dim] != 1 {
		return T{}, inval("squeeze dim %d of %v", dim, a.Shape)
	}
	s := append(Cp(a.Shape[:dim]), a.Shape[dim+1:]...)
	return T{s, append([]D{}, a.E...)}, nil
}
func (c *Ctx) Flatten(a T, dim int) (T, error) {
	if dim < 0 || dim >= a.Rank() {
		return T{}, inval("flatten dim %d of %v", dim, a.Shape)
	}
	s := append(Cp(a.Shape[:dim]), Prod(a.Shape[dim:]))
	return T{s, append([]D{}, a.E...)}, nil
}

/* ---------- indexing ---------- */

// CompleteIndex validates a (possibly partial) index against dims and returns the explicit
// per-dimension ranges; an omitted or {0,0} range is the whole dimension.
func CompleteIndex(idx []Range, dims []int) ([]Range, error) {
	if len(idx) > len(dims) {
		return nil, inval("index longer than rank: %d > %d", len(idx), len(dims))
	}
	o := make([]Range, len(dims))
	for i, d := range dims {
		if i >= len(idx) || (idx[i].From == 0 && idx[i].To == 0) {
			o[i] = Range{0, d}
			continue
		}
		r := idx[i]
		if !(0 <= r.From && r.From < r.To && r.To <= d) {
			return nil, inval("range %v at dim %d of size %d", r, i, d)
		}
		o[i] = r
	}
	return o, nil
}

func (c *Ctx) Slice(a T, idx []Range) (T, error) {
	ci, err := CompleteIndex(idx, a.Shape)
	if err != nil {
		return T{}, err
	}
	os := make([]int, len(ci))
	for i, r := range ci {
		os[i] = r.To - r.From
	}
	o := T{os, make([]D, Prod(os))}
	for i := range o.E {
		ix := Unravel(i, os)
		for k := range ix {
			ix[k] += ci[k].From
		}
		o.E[i] = a.E[Ravel(ix, a.Shape)]
	}
	return o, nil
}

// PatchOffsets validates a Patch call and returns the offset of the source block per dim:
// explicit ranges must have exactly the source's extent; along an omitted or {0,0} range the
// source is written at offset 0.
func PatchOffsets(idx []Range, src, dst []int) ([]int, error) {
	if len(src) != len(dst) {
		return nil, inval("patch rank %v into %v", src, dst)
	}
	for i := range src {
		if src[i] > dst[i] {
			return nil, inval("patch source %v exceeds target %v", src, dst)
		}
	}
	if _, err := CompleteIndex(idx, dst); err != nil {
		return nil, err
	}
	off := make([]int, len(dst))
	for i, r := range idx {
		if r.From == 0 && r.To == 0 {
			continue
		}
		if r.To-r.From != src[i] {
			return nil, inval("patch range %v does not cover source extent %d at dim %d", r, src[i], i)
		}
		off[i] = r.From
	}
	return off, nil
}

func (c *Ctx) Patch(a T, idx []Range, p T) (T, error) {
	off, err := PatchOffsets(idx, p.Shape, a.Shape)
	if err != nil {
		return T{}, err
	}
	o := T{Cp(a.Shape), append([]D{}, a.E...)}
	for i := range p.E {
		ix := Unravel(i, p.Shape)
		for k := range ix {
			ix[k] += off[k]
		}
		o.E[Ravel(ix, a.Shape)] = p.E[i]
	}
	return o, nil
}

func (c *Ctx) Concat(ts []T, dim int) (T, error) {
	if len(ts) < 2 {
		return T{}, inval("concat needs >= 2 tensors")
	}
	base := ts[0].Shape
	if len(base) == 0 || dim < 0 || dim >= len(base) {
		return T{}, inval("concat dim %d of %v", dim, base)
	}
	os := Cp(base)
	os[dim] = 0
	for _, t := range ts {
		if len(t.Shape) != len(base) {
			return T{}, inval("concat ranks differ")
		}
		for j := range base {
			if j != dim && t.Shape[j] != base[j] {
				return T{}, inval("concat sizes differ: %v vs %v", t.Shape, base)
			}
		}
		os[dim] += t.Shape[dim]
	}
	o := T{os, make([]D, Prod(os))}
	for i := range o.E {
		idx := Unravel(i, os)
		k := idx[dim]
		for _, t := range ts {
			if k < t.Shape[dim] {
				idx[dim] = k
				o.E[i] = t.E[Ravel(idx, t.Shape)]
				break
			}
			k -= t.Shape[dim]
		}
	}
	return o, nil
}

/* ---------- reductions ---------- */

// Fold computes one statistic (sum max min avg mean var std) of a fibre.
func (c *Ctx) Fold(op string, f []D) D {
	n := len(f)
	switch op {
	case "sum":
		s := C(0)
		for _, e := range f {
			s = c.Add(s, e)
		}
		return s
	case "avg", "mean":
		return c.Scale(c.Fold("sum", f), 1/float64(n))
	case "max":
		m := f[0]
		for _, e := range f[1:] {
			if e.V > m.V {
				m = e
			}
		}
		// the gap of the selected maximum against the runner-up
		c.extremeGap(f, m.V)
		return m
	case "min":
		m := f[0]
		for _, e := range f[1:] {
			if e.V < m.V {
				m = e
			}
		}
		c.extremeGap(f, m.V)
		return m
	case "var":
		if n == 1 {
			return c.Scale(f[0], 0)
		}
		m := c.Fold("mean", f)
		s := C(0)
		for _, e := range f {
			d := c.Sub(e, m)
			s = c.Add(s, c.Mul(d, d))
		}
		return c.Scale(s, 1/float64(n-1))
	case "std":
		v := c.Fold("var", f)
		if n == 1 {
			return v
		}
		if c != nil && v.V >= 0 {
			if s := math.Sqrt(v.V); s < c.MinStd {
				c.MinStd = s
			}
		}
		return c.Sqrt(v)
	}
	panic("ref: fold " + op)
}

func (c *Ctx) extremeGap(f []D, best float64) {
	if c == nil {
		return
	}
	seen := false
	for _, e := range f {
		if e.V == best && !seen {
			seen = true
			continue
		}
		c.gap(math.Abs(e.V - best))
	}
}

func (c *Ctx) ReduceAlong(op string, a T, dim int) (T, error) {
	if dim < 0 || dim >= a.Rank() {
		return T{}, inval("%sAlong dim %d of %v", op, dim, a.Shape)
	}
	os := append(Cp(a.Shape[:dim]), a.Shape[dim+1:]...)
	o := T{os, make([]D, Prod(os))}
	for i := range o.E {
		oidx := Unravel(i, os)
		fib := make([]D, a.Shape[dim])
		idx := make([]int, a.Rank())
		copy(idx, oidx[:dim])
		copy(idx[dim+1:], oidx[dim:])
		for k := range fib {
			idx[dim] = k
			fib[k] = a.E[Ravel(idx, a.Shape)]
		}
		o.E[i] = c.Fold(op, fib)
	}
	return o, nil
}

func (c *Ctx) ReduceAll(op string, a T) D { return c.Fold(op, a.E) }

/* ---------- helpers for checks ---------- */

// SumElems returns the sum of all elements as a dual (the scalar BackPropagate differentiates).
func (c *Ctx) SumElems(a T) D { return c.Fold("sum", a.E) }

// SeedBlock perturbs every element of a with its own slot starting at base.
func (c *Ctx) SeedBlock(a T, base int) T {
	o := T{Cp(a.Shape), make([]D, len(a.E))}
	for i, e := range a.E {
		o.E[i] = c.Seed(e, base+i)
	}
	return o
}
