// Package ref is the reference model: flat row-major tensors of forward-mode dual numbers.
//
// It is deliberately a different representation from qeep's nested []any tensors with
// hand-written multi-index generators: every op here computes element i of its result from
// unravel(i, shape) by plain index arithmetic, and derivatives are carried forward as tangent
// vectors (no back edges, no accumulation order, no per-op VJP formulas).
package ref

import "math"

// D is a dual number: value, tangent vector T (nil = zero) and A, the same tangent computed
// with the absolute values of all partial derivatives (an upper bound on the sum of |path
// products|, used as the conditioning scale of a gradient entry when comparing).
type D struct {
	V float64
	T []float64
	A []float64
}

// Ctx carries the number of tangent slots and the non-smoothness bookkeeping of one
// evaluation. A nil *Ctx means "forward values only".
type Ctx struct {
	N int
	// MinGap is the smallest distance between the two best candidates at any max/min
	// selection performed (ElMax/ElMin/MaxAlong/MinAlong); MinStd the smallest standard
	// deviation a StdAlong produced. Both start at +Inf.
	MinGap float64
	MinStd float64
	// BcastAvg emulates known finding D2: every expansion (explicit or implicit) scales the
	// tangent of the expanded operand by 1/k, k = expansion factor.
	BcastAvg bool
}

func NewCtx(n int) *Ctx { return &Ctx{N: n, MinGap: math.Inf(1), MinStd: math.Inf(1)} }

func (c *Ctx) n() int {
	if c == nil {
		return 0
	}
	return c.N
}

func C(v float64) D { return D{V: v} }

func (c *Ctx) lin(a D, ca float64, b D, cb float64, v float64) D {
	if a.T == nil && b.T == nil {
		return D{V: v}
	}
	n := c.n()
	t := make([]float64, n)
	ab := make([]float64, n)
	if a.T != nil {
		aca := math.Abs(ca)
		for i, x := range a.T {
			if x != 0 {
				t[i] += ca * x
			}
			if a.A[i] != 0 {
				ab[i] += aca * a.A[i]
			}
		}
	}
	if b.T != nil {
		acb := math.Abs(cb)
		for i, x := range b.T {
			if x != 0 {
				t[i] += cb * x
			}
			if b.A[i] != 0 {
				ab[i] += acb * b.A[i]
			}
		}
	}
	return D{V: v, T: t, A: ab}
}

func (c *Ctx) Add(a, b D) D { return c.lin(a, 1, b, 1, a.V+b.V) }
func (c *Ctx) Sub(a, b D) D { return c.lin(a, 1, b, -1, a.V-b.V) }
func (c *Ctx) Mul(a, b D) D { return c.lin(a, b.V, b, a.V, a.V*b.V) }
func (c *Ctx) Div(a, b D) D { q := a.V / b.V; return c.lin(a, 1/b.V, b, -q/b.V, q) }
func (c *Ctx) un(a D, v, dv float64) D {
	return c.lin(a, dv, D{}, 0, v)
}
func (c *Ctx) Scale(a D, k float64) D { return c.un(a, k*a.V, k) }
func (c *Ctx) Pow(a D, p float64) D {
	v := math.Pow(a.V, p)
	if p == 0 {
		return c.un(a, v, 0)
	}
	if p == 1 {
		return c.un(a, v, 1)
	}
	return c.un(a, v, p*math.Pow(a.V, p-1))
}
func (c *Ctx) Exp(a D) D  { e := math.Exp(a.V); return c.un(a, e, e) }
func (c *Ctx) Log(a D) D  { return c.un(a, math.Log(a.V), 1/a.V) }
func (c *Ctx) Sin(a D) D  { return c.un(a, math.Sin(a.V), math.Cos(a.V)) }
func (c *Ctx) Cos(a D) D  { return c.un(a, math.Cos(a.V), -math.Sin(a.V)) }
func (c *Ctx) Tan(a D) D  { co := math.Cos(a.V); return c.un(a, math.Tan(a.V), 1/(co*co)) }
func (c *Ctx) Sinh(a D) D { return c.un(a, math.Sinh(a.V), math.Cosh(a.V)) }
func (c *Ctx) Cosh(a D) D { return c.un(a, math.Cosh(a.V), math.Sinh(a.V)) }
func (c *Ctx) Tanh(a D) D {
	// 1/cosh^2 rather than 1-tanh^2: the latter cancels catastrophically near saturation
	ch := math.Cosh(a.V)
	return c.un(a, math.Tanh(a.V), 1/(ch*ch))
}
func (c *Ctx) Sqrt(a D) D { s := math.Sqrt(a.V); return c.un(a, s, 0.5/s) }

func (c *Ctx) gap(g float64) {
	if c != nil && g < c.MinGap {
		c.MinGap = g
	}
}

// Max returns the larger operand (the first on a tie) and records the gap.
func (c *Ctx) Max(a, b D) D {
	if a.V >= b.V {
		c.gap(a.V - b.V)
		return a
	}
	c.gap(b.V - a.V)
	return b
}
func (c *Ctx) Min(a, b D) D {
	if a.V <= b.V {
		c.gap(b.V - a.V)
		return a
	}
	c.gap(a.V - b.V)
	return b
}

// ScaleTangent returns d with its tangent multiplied by k (value unchanged).
func ScaleTangent(d D, k float64) D {
	if d.T == nil {
		return d
	}
	t := make([]float64, len(d.T))
	a := make([]float64, len(d.A))
	for i := range t {
		t[i] = d.T[i] * k
		a[i] = d.A[i] * math.Abs(k)
	}
	return D{V: d.V, T: t, A: a}
}

// Seed adds a one-hot perturbation in slot s.
func (c *Ctx) Seed(d D, s int) D {
	t := make([]float64, c.N)
	a := make([]float64, c.N)
	if d.T != nil {
		copy(t, d.T)
		copy(a, d.A)
	}
	t[s] += 1
	a[s] += 1
	return D{V: d.V, T: t, A: a}
}
