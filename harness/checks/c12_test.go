package checks

import (
	"fmt"
	"math"
	"testing"

	"github.com/sahandsafizadeh/qeep/component/losses"
	"github.com/sahandsafizadeh/qeep/tensor"
	"pgregory.net/rapid"

	"qeepverif/evid"
	"qeepverif/lib"
	"qeepverif/prog"
	"qeepverif/ref"
)

// LossCase: a loss applied to predictions and targets. For C13 the prediction is the last
// value of the upstream program Up (a tracked leaf when Up has no nodes); for C12 Up only
// holds the prediction leaf.
type LossCase struct {
	Kind string       `json:"kind"` // mse | bce | ce
	Up   prog.Program `json:"up"`
	T    prog.F64s    `json:"t"` // targets, same shape as the prediction
	TTr  bool         `json:"t_tracked,omitempty"`
	// Same (C12): the prediction tensor object is passed as the target as well (T repeats the
	// prediction values)
	Same bool `json:"same,omitempty"`
	// Other: a second loss object of another kind is in use (newLossWithOther)
	Other int `json:"other,omitempty"`
	// ShareT (C13): both rounds pass the same (untracked) target tensor object; the first round's
	// back-propagation lies between its two uses
	ShareT bool `json:"share_t,omitempty"`
	// Multi (C13, leaf predictions only; 0 or 8..16): that many further loss graphs are built over
	// the same prediction leaf before the first back-propagation; all are back-propagated in
	// turn and only then is the gradient read: it is (Multi+1) times the single derivative
	Multi int `json:"multi,omitempty"`
	// Aged (0 or 17..40): the loss object first serves that many ordinary batches (predictions
	// and targets strictly inside (0,1)), each checked, before the case proper
	Aged int `json:"aged,omitempty"`
	// ResetLeaves (C13): every tracked leaf of the upstream program is reset to a fresh tracked
	// leaf between Compute and BackPropagate
	ResetLeaves bool `json:"reset_leaves,omitempty"`
}

// ageLoss makes the loss object compute n ordinary batches, each compared with the definition.
func ageLoss(kind string, compute func(p, t tensor.Tensor) (tensor.Tensor, error), n int) *Failure {
	shape := []int{3}
	if kind == "ce" {
		shape = []int{2, 2}
	}
	m := ref.Prod(shape)
	for k := 0; k < n && k < 64; k++ {
		pv, tv := make([]float64, m), make([]float64, m)
		for i := range pv {
			pv[i] = 0.1 + 0.8*float64((i*7+k*3)%11)/11
			tv[i] = 0.05 + 0.9*float64((i*5+k)%7)/7
		}
		want, _ := refLoss(nil, kind, ref.FromVals(shape, pv), ref.FromVals(shape, tv))
		l, err := compute(lib.MustNew(shape, pv, k%2 == 0), lib.MustNew(shape, tv, false))
		if err != nil {
			return failf("%s.Compute number %d on one object rejected an ordinary batch: %v", kind, k+1, err)
		}
		_, lv, err := lib.Read(l)
		if err != nil || len(lv) != 1 || math.IsNaN(lv[0]) || math.Abs(lv[0]-want.V) > 1e-9*(math.Abs(want.V)+1e-12) {
			return failf("%s.Compute number %d on one object = %v, defined value %v", kind, k+1, lv, want.V)
		}
	}
	return nil
}

func init() {
	register("C12/loss_value", checkC12)
	register("C13/loss_grad", checkC13)
}

// newLoss constructs one loss object; histories keep using the same object for every step,
// as a training loop does (state leaking from one Compute into the next must show).
func newLoss(kind string) func(p, t tensor.Tensor) (tensor.Tensor, error) {
	return newLossWithOther(kind, 0)
}

// newLossWithOther: with other == 1 / 2 loss objects of the two other kinds are constructed
// before / after the returned one and evaluate (and back-propagate) a batch of their own right
// before every Compute of the returned object.
func newLossWithOther(kind string, other int) func(p, t tensor.Tensor) (tensor.Tensor, error) {
	var okinds []string
	for _, k := range []string{"ce", "mse", "bce"} {
		if k != kind {
			okinds = append(okinds, k)
		}
	}
	var os []func(p, t tensor.Tensor) (tensor.Tensor, error)
	mkOthers := func() {
		for _, k := range okinds {
			os = append(os, newLoss1(k))
		}
	}
	if other == 1 {
		mkOthers()
	}
	main := newLoss1(kind)
	if other >= 10 {
		main = zeroLoss(kind, other)
		other = 0
		evid.Class("C12_13.zero_value_loss_struct")
	}
	if other == 2 {
		mkOthers()
	}
	if len(os) == 0 {
		return main
	}
	return func(p, t tensor.Tensor) (tensor.Tensor, error) {
		for i, o := range os {
			shape := []int{4}
			if okinds[i] == "ce" {
				shape = []int{2, 2}
			}
			op := lib.MustNew(shape, []float64{0.3, 0.9, 0, 1.5}, true)
			ot := lib.MustNew(shape, []float64{1, 0.25, 0, 1}, false)
			if l, err := o(op, ot); err == nil && l != nil {
				_ = tensor.BackPropagate(l)
			}
		}
		return main(p, t)
	}
}

func newLoss1(kind string) func(p, t tensor.Tensor) (tensor.Tensor, error) {
	// other >= 10: the checked object is the zero value of its (field-less) struct type, which
	// the API allows, instead of the constructor's result
	switch kind {
	case "mse":
		return losses.NewMSE().Compute
	case "bce":
		return losses.NewBCE().Compute
	}
	return losses.NewCE().Compute
}

// zeroLoss returns Compute of a zero-value loss struct (var l losses.BCE; &losses.CE{}; new(...)).
func zeroLoss(kind string, form int) func(p, t tensor.Tensor) (tensor.Tensor, error) {
	switch kind {
	case "mse":
		if form%2 == 0 {
			return (&losses.MSE{}).Compute
		}
		return new(losses.MSE).Compute
	case "bce":
		if form%2 == 0 {
			return (&losses.BCE{}).Compute
		}
		var l losses.BCE
		return l.Compute
	}
	if form%2 == 0 {
		return (&losses.CE{}).Compute
	}
	return new(losses.CE).Compute
}

// rejectedLossCalls makes invalid Compute calls on the loss object with the very tensors the
// next valid call uses: nil prediction / nil target, wrong rank, mismatched batch size. Each
// must be rejected, and none may influence the valid call.
func rejectedLossCalls(kind string, compute func(p, t tensor.Tensor) (tensor.Tensor, error), p, tg tensor.Tensor) *Failure {
	ps := p.Shape()
	longer := append([]int{ps[0] + 3}, ps[1:]...)
	n := ref.Prod(longer)
	lv := make([]float64, n)
	for i := range lv {
		lv[i] = 0.25
	}
	wrongRank := lib.MustNew(append([]int{1}, ps...), make([]float64, ref.Prod(ps)), false)
	bads := []struct {
		what string
		p, t tensor.Tensor
	}{
		// calls involving other objects first, the ones that involve the targets of the valid
		// call that follows last (per-object state keyed by an argument must not survive them)
		{"nil target", p, nil},
		{"more targets than predictions", p, lib.MustNew(longer, lv, false)},
		{"wrong rank", wrongRank, tg},
		{"more predictions than targets", lib.MustNew(longer, lv, false), tg},
		{"nil prediction", nil, tg},
	}
	// the order is rotated by the batch size, so that over many cases every invalid call is
	// at some point the last one before the valid call
	rot := ps[0] % len(bads)
	for i := range bads {
		bad := bads[(i+rot)%len(bads)]
		l, err := compute(bad.p, bad.t)
		if err == nil || l != nil {
			return failf("%s.Compute accepted an invalid call (%s)", kind, bad.what)
		}
	}
	return nil
}

func lossShape(t *rapid.T, kind string) []int {
	if rapid.IntRange(0, 19).Draw(t, "bigbatch") == 0 {
		n := rapid.SampledFrom([]int{64, 255, 257, 300, 513, 777, 1025}).Draw(t, "bign")
		if kind == "ce" {
			return []int{n, rapid.IntRange(1, 2).Draw(t, "classes")}
		}
		return []int{n}
	}
	if kind == "ce" {
		return []int{rapid.IntRange(1, 6).Draw(t, "batch"), rapid.IntRange(1, 5).Draw(t, "classes")}
	}
	return []int{rapid.IntRange(1, 6).Draw(t, "batch")}
}

// drawProb draws prediction / target values from the categories the quantifier lists.
func drawProb(t *rapid.T, n int, label string, allowBoundNeighbours bool) ([]float64, map[string]bool) {
	v := make([]float64, n)
	seen := map[string]bool{}
	for i := range v {
		hi := 4
		if allowBoundNeighbours {
			hi = 5
		}
		switch rapid.IntRange(0, hi).Draw(t, label+"kind") {
		case 0, 1:
			v[i] = float64(rapid.IntRange(1, 31).Draw(t, label+"in"))/32 + 0.0013*float64(i%7)
			seen["interior"] = true
		case 2:
			v[i] = 0
			seen["clipped"] = true
		case 3:
			v[i] = 1
			seen["clipped"] = true
		case 4:
			if rapid.Bool().Draw(t, label+"tiny") {
				// inside the clipping interval but many orders of magnitude from the lattice
				v[i] = rapid.SampledFrom([]float64{1e-9, 1e-7, 3e-11, 1e-4, 1 - 1e-9, 1 - 1e-7, 1 - 3e-11}).Draw(t, label+"tinyv")
				seen["interior"] = true
				break
			}
			m := rapid.SampledFrom([]float64{1.5, 3, 1e3, 1e6, -0.25, -2, -1e3, -1e6}).Draw(t, label+"out")
			v[i] = m
			seen["clipped"] = true
		default:
			v[i] = rapid.SampledFrom([]float64{lossEps / 2, lossEps * 2, lossEps + 1e-13, lossEps - 1e-13, 1 - lossEps/2, 1 - 2*lossEps, 1 - lossEps + 1e-13}).Draw(t, label+"near")
			seen["near_bound"] = true
		}
	}
	return v, seen
}

func genC12(t *rapid.T) LossCase {
	kind := rapid.SampledFrom([]string{"mse", "bce", "ce"}).Draw(t, "kind")
	s := lossShape(t, kind)
	p, _ := drawProb(t, ref.Prod(s), "p", true)
	tg, _ := drawProb(t, ref.Prod(s), "t", true)
	other := 0
	if rapid.IntRange(0, 2).Draw(t, "otherobject") == 0 {
		other = rapid.IntRange(1, 2).Draw(t, "otherwhen")
	} else if rapid.IntRange(0, 5).Draw(t, "zerovalue") == 0 {
		other = rapid.IntRange(10, 11).Draw(t, "zeroform")
	}
	if rapid.IntRange(0, 9).Draw(t, "subnormal") == 0 {
		// differences that are zero or subnormal throughout (the squares underflow to 0)
		for i := range p {
			p[i] = rapid.SampledFrom([]float64{0, 5e-324, 1e-310, -1e-310, 2e-308, 1e-320}).Draw(t, "psub")
			tg[i] = rapid.SampledFrom([]float64{0, 0, 5e-324, 1e-310}).Draw(t, "tsub")
		}
	}
	aged := 0
	if rapid.IntRange(0, 7).Draw(t, "aged") == 0 {
		aged = rapid.IntRange(17, 40).Draw(t, "agedn")
	}
	same := rapid.IntRange(0, 7).Draw(t, "sameobject") == 0
	if same {
		tg = append([]float64{}, p...)
	}
	return LossCase{Kind: kind, Up: prog.Program{Leaves: []prog.Leaf{{Shape: s, Vals: p, Tracked: rapid.Bool().Draw(t, "ptracked")}}}, T: tg, TTr: rapid.Bool().Draw(t, "ttracked"), Same: same, Other: other, Aged: aged}
}

func checkC12(c LossCase) *Failure {
	if len(c.Up.Leaves) != 1 || len(c.Up.Nodes) != 0 {
		return failf("malformed case")
	}
	pl := c.Up.Leaves[0]
	if len(c.T) != len(pl.Vals) || len(pl.Vals) != ref.Prod(pl.Shape) {
		return nil
	}
	if c.Same {
		c.T = append(prog.F64s{}, pl.Vals...)
	}
	want, _ := refLoss(nil, c.Kind, ref.FromVals(pl.Shape, pl.Vals), ref.FromVals(pl.Shape, c.T))
	// scale: the same formula on term magnitudes (|log| of clipped values are <= 27.7)
	scale := math.Abs(want.V) + 1e-12
	vals := []float64{}
	compute := newLossWithOther(c.Kind, c.Other)
	if c.Aged > 0 {
		if f := ageLoss(c.Kind, compute, c.Aged); f != nil {
			return f
		}
		evid.Class("C12.object_served_17_or_more_batches_before")
	}
	// the same loss object first serves a larger and a smaller batch (a training loop's full
	// batches and short last batch); both are checked against the definition as well
	for _, rep := range []int{3, 0} {
		ws := ref.Cp(pl.Shape)
		var wp, wt []float64
		if rep > 0 {
			ws[0] *= rep
			for r := 0; r < rep; r++ {
				wp = append(wp, pl.Vals...)
				wt = append(wt, c.T...)
			}
		} else {
			if ws[0] < 2 {
				continue
			}
			ws[0]--
			n := ref.Prod(ws)
			wp, wt = pl.Vals[:n], c.T[:n]
		}
		ww, _ := refLoss(nil, c.Kind, ref.FromVals(ws, wp), ref.FromVals(ws, wt))
		l, err := compute(lib.MustNew(ws, wp, false), lib.MustNew(ws, wt, false))
		if err != nil {
			return failf("%s.Compute rejected inputs of shape %v: %v", c.Kind, ws, err)
		}
		_, lv, err := lib.Read(l)
		if err != nil || len(lv) != 1 || math.IsNaN(lv[0]) || math.Abs(lv[0]-ww.V) > 1e-9*(math.Abs(ww.V)+1e-12) {
			return failf("%s on a batch of %d = %v, defined value %v", c.Kind, ws[0], lv, ww.V)
		}
	}
	for vi, tr := range [][2]bool{{pl.Tracked, c.TTr}, {false, false}, {true, true}} {
		p := lib.MustNew(pl.Shape, pl.Vals, tr[0])
		tg := lib.MustNew(pl.Shape, c.T, tr[1])
		if c.Same {
			tg = p
		}
		if vi == 0 {
			// rejected calls that already involve the tensors of the valid call that follows
			if f := rejectedLossCalls(c.Kind, compute, p, tg); f != nil {
				return f
			}
		}
		l, err := compute(p, tg)
		if err != nil {
			return failf("%s.Compute rejected inputs of shape %v: %v", c.Kind, pl.Shape, err)
		}
		ls, lv, err := lib.Read(l)
		if err != nil {
			return failf("%s result unreadable: %v", c.Kind, err)
		}
		if len(ls) != 0 {
			return failf("%s result has shape %v, expected a scalar", c.Kind, ls)
		}
		v := lv[0]
		if math.IsNaN(v) || math.IsInf(v, 0) {
			return failf("%s = %v for finite inputs", c.Kind, v)
		}
		if v < 0 {
			return failf("%s = %v is negative", c.Kind, v)
		}
		if math.Abs(v-want.V) > 1e-9*scale {
			return failf("%s = %v, defined value %v", c.Kind, v, want.V)
		}
		vals = append(vals, v)
	}
	if !lib.SameBits(vals[0], vals[1]) || !lib.SameBits(vals[1], vals[2]) {
		return failf("%s value depends on tracking: %v (as given), %v (untracked), %v (tracked)", c.Kind, vals[0], vals[1], vals[2])
	}
	evid.Eval()
	evid.Class("C12.kind=" + c.Kind)
	if c.Other > 0 {
		evid.Class("C12.second_loss_object_in_use")
	}
	clipped, interior, near := false, false, false
	for _, v := range pl.Vals {
		switch {
		case v <= 0 || v >= 1:
			clipped = true
		case v < 1e-11 || v > 1-1e-11:
			near = true
		default:
			interior = true
		}
	}
	if near {
		evid.Class("C12.within_1e-12_of_a_bound")
	}
	if c.Same {
		evid.Class("C12.one_tensor_object_as_prediction_and_target")
	}
	if clipped && interior {
		evid.Class("C12.clipped_and_interior_mixed")
		evid.NonTrivial(c)
	}
	return nil
}

func TestC12_loss_value(t *testing.T) {
	run(t, 20000, func(rt *rapid.T) {
		c := genC12(rt)
		if f := guard(func() *Failure { return checkC12(c) }); f != nil {
			fail(rt, "C12/loss_value", c, f)
		}
	})
}

/* ---------- C13: gradients ---------- */

var c13UpOps = []string{"scale", "mul", "add", "sub", "tanh", "sin", "pow", "elmax", "elmin", "reshape_roundtrip"}

func genC13(t *rapid.T) LossCase {
	kind := rapid.SampledFrom([]string{"mse", "bce", "ce"}).Draw(t, "kind")
	s := lossShape(t, kind)
	if ref.Prod(s) > 100 && rapid.IntRange(0, 2).Draw(t, "keepbig") > 0 {
		s[0] = rapid.IntRange(1, 6).Draw(t, "smallbatch")
	}
	n := ref.Prod(s)
	c := LossCase{Kind: kind}
	c.ShareT = rapid.Bool().Draw(t, "sharetarget")
	c.ResetLeaves = rapid.IntRange(0, 4).Draw(t, "resetleaves") == 0
	if rapid.IntRange(0, 2).Draw(t, "otherobject") == 0 {
		c.Other = rapid.IntRange(1, 2).Draw(t, "otherwhen")
	} else if rapid.IntRange(0, 5).Draw(t, "zerovalue") == 0 {
		c.Other = rapid.IntRange(10, 11).Draw(t, "zeroform")
	}
	tg, _ := drawProb(t, n, "t", false)
	for i := range tg { // targets in [0,1]
		if tg[i] < 0 || tg[i] > 1 {
			tg[i] = 0.5
		}
	}
	c.T = tg
	if rapid.IntRange(0, 2).Draw(t, "leafpred") == 0 {
		p, _ := drawProb(t, n, "p", false)
		if rapid.IntRange(0, 5).Draw(t, "boundneighbours") == 0 {
			// the floating-point neighbours of the clipping bounds, on either side
			for i := range p {
				if rapid.IntRange(0, 1).Draw(t, "bn") == 0 {
					b := rapid.SampledFrom([]float64{lossEps, 1 - lossEps}).Draw(t, "bnbound")
					dir := math.Inf(1 - 2*rapid.IntRange(0, 1).Draw(t, "bndir"))
					for k := rapid.SampledFrom([]int{1, 1, 2, 3, 17, 300, 399}).Draw(t, "bnsteps"); k > 0 && k < 400; k-- {
						b = math.Nextafter(b, dir)
					}
					p[i] = b
				}
			}
		}
		if rapid.Bool().Draw(t, "nearsaturated") {
			// strictly between 0 and 1 yet outside [1e-12, 1-1e-12]: clipped, zero gradient
			for i := range p {
				if rapid.IntRange(0, 2).Draw(t, "ns") == 0 {
					p[i] = rapid.SampledFrom([]float64{1e-15, 3e-13, 5e-13, 1e-300, 1 - 1e-14, 1 - 3e-13}).Draw(t, "nsv")
				}
			}
			if rapid.Bool().Draw(t, "allinside") {
				for i := range p { // no element at or beyond 0 / 1 in this batch
					if p[i] <= 0 || p[i] >= 1 {
						p[i] = 0.25
					}
				}
			}
		}
		c.Up = prog.Program{Leaves: []prog.Leaf{{Shape: s, Vals: p, Tracked: rapid.IntRange(0, 4).Draw(t, "ptracked") > 0}}}
		if n <= 100 && rapid.IntRange(0, 5).Draw(t, "multi") == 0 {
			c.Multi = rapid.IntRange(8, 16).Draw(t, "multin")
		}
		return c
	}
	// upstream program: smooth shape-preserving ops over leaves in (0,1)
	cfg := prog.DefaultCfg([]string{"scale", "mul", "add", "sub", "tanh", "sin", "pow", "elmax", "elmin", "mul", "scale", "flatten", "flatten", "reshape"})
	cfg.MaxElems = 2100
	g := prog.NewGen(t, cfg)
	nl := rapid.IntRange(1, 3).Draw(t, "nleaves")
	if n > 100 {
		nl = 1
	}
	var pool []int
	for l := 0; l < nl; l++ {
		v := make([]float64, n)
		for i := range v {
			v[i] = float64(rapid.IntRange(1, 15).Draw(t, "u"))/16 + 0.0011*float64(i%13+1) + 0.0007*float64(l+1)
		}
		g.P.Leaves = append(g.P.Leaves, prog.Leaf{Shape: ref.Cp(s), Vals: v, Tracked: rapid.IntRange(0, 3).Draw(t, "tracked") > 0})
		g.Vals = append(g.Vals, ref.FromVals(s, v))
		pool = append(pool, l)
	}
	nn := rapid.IntRange(1, 6).Draw(t, "nnodes")
	if n > 100 {
		// a large batch: p = a^2 + a or p = a + a (the first contribution reaches a through a
		// pass-through rule), or one or two plain nodes
		switch rapid.IntRange(0, 2).Draw(t, "bigform") {
		case 0:
			g.P.Nodes = []prog.Node{{Op: "pow", In: []int{0}, F: 2}, {Op: "add", In: []int{1, 0}}}
			c.Up = g.P
			return c
		case 1:
			g.P.Nodes = []prog.Node{{Op: "add", In: []int{0, 0}}, {Op: "scale", In: []int{1}, F: 0.5}}
			c.Up = g.P
			return c
		}
		nn = rapid.IntRange(1, 2).Draw(t, "bignodes")
	}
	for len(g.P.Nodes) < nn {
		before := len(g.Vals)
		if n <= 100 && rapid.IntRange(0, 3).Draw(t, "diamond") == 0 {
			g.AddDiamond(pool)
		} else {
			g.AddNode(pool)
		}
		for id := before; id < len(g.Vals); id++ {
			if ref.EqShape(g.Vals[id].Shape, s) {
				pool = append(pool, id)
			}
		}
	}
	// the prediction must have the loss's input shape: take the last value of that shape
	last := pool[len(pool)-1]
	if last != len(g.Vals)-1 {
		// re-root: add an identity-like node on the last fitting value
		g.P.Nodes = append(g.P.Nodes, prog.Node{Op: "scale", In: []int{last}, F: 1})
	}
	c.Up = g.P
	return c
}

func checkC13(c LossCase) *Failure {
	nl := len(c.Up.Leaves)
	total := nl + len(c.Up.Nodes)
	if nl == 0 {
		return failf("malformed case")
	}
	tr := c.Up.Tracked()
	pid := total - 1
	reach := c.Up.Reach(pid, tr)
	// large batches: dual-number adjoints for the leaves only (interior values are still
	// checked for nil-ness, shape, finiteness and - the prediction - against the closed form)
	seed := append([]bool{}, reach...)
	if n := len(c.T); n > 100 {
		for i := nl; i < total; i++ {
			seed[i] = false
		}
	}
	vals, slot, ctx, err := prog.RunRef(c.Up, seed, false)
	if err != nil {
		return nil
	}
	p := vals[pid]
	wantShape := 1
	if c.Kind == "ce" {
		wantShape = 2
	}
	if len(p.Shape) != wantShape || len(c.T) != len(p.E) {
		return nil
	}
	for _, x := range c.T {
		if x < 0 || x > 1 {
			return nil // targets outside [0,1] are outside C13's quantifier
		}
	}
	if ctx.MinGap < 1e-6 {
		evid.Discard("near_kink_upstream")
		return nil
	}
	for _, e := range p.E {
		if math.IsNaN(e.V) || math.IsInf(e.V, 0) || math.Abs(e.V) > 1e6 {
			return nil
		}
	}
	L, gap := refLoss(ctx, c.Kind, p, ref.FromVals(p.Shape, c.T))
	if c.Kind != "mse" && gap == 0 {
		// a prediction (numerically) at a clipping bound: excluded by the quantifier
		evid.Discard("prediction_at_clipping_bound")
		return nil
	}
	compute := newLossWithOther(c.Kind, c.Other)
	clippedSeen := false
	// the same loss object serves two independent rounds (fresh tensors each), as in a loop
	var sharedT tensor.Tensor
	if c.ShareT {
		sharedT = lib.MustNew(p.Shape, c.T, false)
	}
	for round := 0; round < 2; round++ {
		if f := c13Round(c, compute, round, vals, slot, reach, L, p, &clippedSeen, sharedT); f != nil {
			return f
		}
	}
	return c13Classify(c, tr, pid, clippedSeen)
}

func c13Round(c LossCase, compute func(p, t tensor.Tensor) (tensor.Tensor, error), round int, vals []ref.T, slot []int, reach []bool, L ref.D, p ref.T, clippedSeenOut *bool, sharedT tensor.Tensor) *Failure {
	total := len(vals)
	pid := total - 1
	lv, err := prog.RunLib(c.Up)
	if err != nil {
		return failf("upstream program rejected: %v", err)
	}
	tg := sharedT
	if tg == nil {
		tg = lib.MustNew(p.Shape, c.T, false)
	}
	if round == 1 {
		// between the rounds: a valid call on a smaller batch, then calls that are rejected
		// although they involve the tensors of the valid call that follows
		if p.Shape[0] >= 2 {
			hs := ref.Cp(p.Shape)
			hs[0]--
			hn := ref.Prod(hs)
			hv := make([]float64, hn)
			for i := range hv {
				hv[i] = 0.5
			}
			if _, err := compute(lib.MustNew(hs, hv, true), lib.MustNew(hs, c.T[:hn], false)); err != nil {
				return failf("%s.Compute rejected inputs of shape %v: %v", c.Kind, hs, err)
			}
		}
		if f := rejectedLossCalls(c.Kind, compute, lv[pid], tg); f != nil {
			return f
		}
	}
	l, err := compute(lv[pid], tg)
	if err != nil {
		return failf("round %d: %s.Compute rejected inputs of shape %v: %v", round, c.Kind, p.Shape, err)
	}
	mult := 1.0
	var more []tensor.Tensor
	if len(c.Up.Nodes) == 0 && c.Multi > 0 && c.Multi <= 64 {
		for k := 0; k < c.Multi; k++ {
			lk, err := compute(lv[pid], tg)
			if err != nil {
				return failf("round %d: %s.Compute number %d on the same inputs failed: %v", round, c.Kind, k+2, err)
			}
			more = append(more, lk)
		}
		mult = float64(c.Multi + 1)
	}
	if c.ResetLeaves {
		for i, lf := range c.Up.Leaves {
			if lf.Tracked {
				lv[i].ResetGradContext(true) // "zero the gradients, then backward"
			}
		}
		evid.Class("C13.leaves_reset_between_compute_and_backward")
	}
	if err := tensor.BackPropagate(l); err != nil {
		return failf("BackPropagate(%s loss) returned error: %v", c.Kind, err)
	}
	for k, lk := range more {
		if err := tensor.BackPropagate(lk); err != nil {
			return failf("BackPropagate of loss graph %d over the same prediction leaf returned error: %v", k+2, err)
		}
	}
	if tg.Gradient() != nil {
		return failf("untracked targets received a gradient")
	}
	N := float64(len(p.E))
	if c.Kind == "ce" {
		N = float64(p.Shape[0])
	}
	clippedSeen := false
	for i := 0; i < total; i++ {
		g := lv[i].Gradient()
		if !reach[i] {
			if g != nil {
				return failf("value %d is untracked (or not on a tracked path to the loss) but received a gradient", i)
			}
			continue
		}
		if g == nil {
			return failf("value %d (tracked, on a path to the loss) received no gradient", i)
		}
		gs, gv, err := lib.Read(g)
		if err != nil {
			return failf("gradient of value %d unreadable: %v", i, err)
		}
		if !ref.EqShape(gs, vals[i].Shape) {
			return failf("gradient of value %d has shape %v, tensor shape %v", i, gs, vals[i].Shape)
		}
		var want, wsc []float64
		if slot[i] >= 0 {
			want, wsc = tangentOf(L, slot[i], len(vals[i].E))
		}
		for k := range gv {
			if math.IsNaN(gv[k]) || math.IsInf(gv[k], 0) {
				return failf("gradient of value %d [%d] = %v is not finite (prediction-side value %v)", i, k, gv[k], vals[i].E[k].V)
			}
			if want == nil {
				continue
			}
			if !closeTo(gv[k], mult*want[k], mult*wsc[k]) {
				return failf("%s: gradient of value %d [%d] = %v, analytic derivative = %v (x %v loss graphs over this leaf)", c.Kind, i, k, gv[k], want[k], mult)
			}
		}
		if i == pid {
			// closed forms of the statement, independently of the dual-number evaluation
			for k := range gv {
				pv, tv := p.E[k].V, c.T[k]
				var cf float64
				clipped := c.Kind != "mse" && (pv < lossEps || pv > 1-lossEps)
				switch {
				case c.Kind == "mse":
					cf = 2 * (pv - tv) / N
				case clipped:
					cf = 0
					clippedSeen = true
				case c.Kind == "bce":
					cf = ((1-tv)/(1-pv) - tv/pv) / N
				default:
					cf = -(tv / pv) / N
				}
				cf *= mult
				if clipped && gv[k] != 0 {
					return failf("%s: clipped prediction %v received gradient %v, expected a finite zero", c.Kind, pv, gv[k])
				}
				sc := 0.0
				if wsc != nil {
					sc = wsc[k]
				}
				if math.Abs(gv[k]-cf) > 1e-9*math.Max(1, math.Abs(cf))+1e-9*sc*mult {
					return failf("%s: prediction gradient [%d] = %v, closed form = %v (p=%v t=%v N=%v)", c.Kind, k, gv[k], cf, pv, tv, N)
				}
			}
		}
	}
	*clippedSeenOut = *clippedSeenOut || clippedSeen
	// the round ends like a training step: the leaves that hold gradients are reset
	for i := range c.Up.Leaves {
		if lv[i].Gradient() != nil {
			lv[i].ResetGradContext(true)
			if lv[i].Gradient() != nil {
				return failf("gradient survives ResetGradContext")
			}
		}
	}
	return nil
}

func c13Classify(c LossCase, tr []bool, pid int, clippedSeen bool) *Failure {
	evid.Eval()
	evid.Class("C13.kind=" + c.Kind)
	if c.Other > 0 {
		evid.Class("C13.second_loss_object_in_use")
	}
	if c.ShareT {
		evid.Class("C13.target_object_shared_by_both_rounds")
	}
	if c.Multi > 0 && len(c.Up.Nodes) == 0 {
		evid.Class("C13.nine_or_more_loss_graphs_over_one_leaf")
	}
	nt := false
	if len(c.Up.Nodes) > 0 && tr[pid] {
		evid.Class("C13.prediction_is_interior_node")
		nt = true
	}
	if clippedSeen && tr[pid] {
		evid.Class("C13.clipped_prediction")
		nt = true
	}
	if !tr[pid] {
		evid.Class("C13.untracked_prediction")
	}
	evid.Class(fmt.Sprintf("C13.upstream_nodes=%d", len(c.Up.Nodes)))
	if nt {
		evid.NonTrivial(c)
	}
	return nil
}

func TestC13_loss_grad(t *testing.T) {
	run(t, 10000, func(rt *rapid.T) {
		c := genC13(rt)
		if f := guard(func() *Failure { return checkC13(c) }); f != nil {
			fail(rt, "C13/loss_grad", c, f)
		}
	})
}
