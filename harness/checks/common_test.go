package checks

import (
	"encoding/json"
	"flag"
	"fmt"
	"math"
	"os"
	"runtime/debug"
	"strconv"
	"strings"
	"testing"

	"github.com/sahandsafizadeh/qeep/tensor"
	"pgregory.net/rapid"

	"qeepverif/evid"
	"qeepverif/lib"
	"qeepverif/ref"
)

// Failure describes one violated expectation; a nil *Failure means the case passed.
type Failure struct {
	Msg string `json:"msg"`
}

func failf(f string, a ...any) *Failure { return &Failure{Msg: fmt.Sprintf(f, a...)} }

// Replay is the file written for a failing case; `verif.py replay` feeds it back.
type Replay struct {
	Property string          `json:"property"`
	Check    string          `json:"check"`
	Message  string          `json:"message"`
	Case     json.RawMessage `json:"case"`
}

var (
	tier      = "quick"
	scale     = 1.0
	replayOut = ""
	propID    = ""
	replayFns = map[string]func(json.RawMessage) *Failure{}
)

func thorough() bool { return tier == "thorough" }

func TestMain(m *testing.M) {
	flag.Parse()
	if v := os.Getenv("VERIF_TIER"); v != "" {
		tier = v
	}
	if v := os.Getenv("VERIF_SCALE"); v != "" {
		scale, _ = strconv.ParseFloat(v, 64)
	}
	replayOut = os.Getenv("VERIF_REPLAY_OUT")
	propID = os.Getenv("VERIF_PROPERTY")
	fp := os.Getenv("VERIF_FINDINGS")
	if fp == "" {
		fp = "/verif/known_findings.json"
	}
	if err := evid.LoadFindings(fp); err != nil {
		fmt.Fprintln(os.Stderr, "cannot load findings:", err)
		os.Exit(2)
	}
	if os.Getenv("VERIF_REPLAY_IN") == "" {
		shard, _ := strconv.Atoi(os.Getenv("VERIF_SHARD"))
		prehistory(shard)
	}
	code := m.Run()
	if out := os.Getenv("VERIF_OUT"); out != "" {
		if err := evid.Write(out, propID); err != nil {
			fmt.Fprintln(os.Stderr, "cannot write evidence part:", err)
			os.Exit(2)
		}
	}
	os.Exit(code)
}

// register makes a check replayable: name is "<property>/<sub-check>".
func register[C any](name string, check func(C) *Failure) {
	replayFns[name] = func(raw json.RawMessage) *Failure {
		var c C
		if err := json.Unmarshal(raw, &c); err != nil {
			return failf("cannot decode replay case: %v", err)
		}
		return guard(func() *Failure { return check(c) })
	}
}

// fail records the failing case as the replay file (the last write during shrinking is the
// minimal case) and fails the rapid test.
func fail(t *rapid.T, name string, c any, f *Failure) {
	evid.Failure()
	writeReplay(name, c, f)
	t.Fatalf("%s: %s", name, f.Msg)
}

func writeReplay(name string, c any, f *Failure) {
	if replayOut == "" {
		return
	}
	raw, err := json.Marshal(c)
	if err != nil {
		raw = []byte(`"unserialisable case"`)
	}
	r := Replay{Property: strings.SplitN(name, "/", 2)[0], Check: name, Message: f.Msg, Case: raw}
	b, _ := json.MarshalIndent(r, "", " ")
	_ = os.WriteFile(replayOut, b, 0o644)
}

// run drives one rapid property with n*scale cases.
func run(t *testing.T, n int, prop func(*rapid.T)) {
	t.Helper()
	k := int(float64(n) * scale)
	if k < 1 {
		k = 1
	}
	if err := flag.Set("rapid.checks", strconv.Itoa(k)); err != nil {
		t.Fatal(err)
	}
	evid.ClassN("requested_cases", k)
	rapid.Check(t, prop)
}

// TestReplay re-checks a saved case without rapid.
func TestReplay(t *testing.T) {
	p := os.Getenv("VERIF_REPLAY_IN")
	if p == "" {
		t.Skip("no replay requested")
	}
	b, err := os.ReadFile(p)
	if err != nil {
		t.Fatal(err)
	}
	var r Replay
	if err := json.Unmarshal(b, &r); err != nil {
		t.Fatal(err)
	}
	fn, ok := replayFns[r.Check]
	if !ok {
		t.Fatalf("no replay function for %q", r.Check)
	}
	if f := fn(r.Case); f != nil {
		fmt.Printf("REPLAY-FAILS check=%s: %s\n", r.Check, f.Msg)
		t.Fatalf("replay fails: %s", f.Msg)
	}
	fmt.Printf("REPLAY-PASSES check=%s\n", r.Check)
}

// guard turns a panic inside a check (in the library or in the harness) into a failure with
// the stack, so that the case is still written as a replay.
func guard(f func() *Failure) (res *Failure) {
	defer func() {
		if r := recover(); r != nil {
			res = failf("panic: %v\n%s", r, debug.Stack())
		}
	}()
	return f()
}

/* ---------- comparison helpers ---------- */

// closeTo compares got with want using a tolerance tied to the entry's conditioning scale.
func closeTo(got, want, scale float64) bool {
	if math.IsNaN(got) || math.IsInf(got, 0) {
		return false
	}
	tol := 1e-7*math.Max(scale, math.Abs(want)) + 1e-9
	d := math.Abs(got - want)
	if s := math.Max(scale, math.Abs(want)); s > 0 && d <= tol {
		evid.RelErr(d / math.Max(s, 1e-1))
	}
	return d <= tol
}

// NFan is the number of consumer topologies of weightedRoot.
const NFan = 8

// crowdFactors: dyadic factors that sum to exactly 1 (n of them, 7 <= n <= 16).
func crowdFactors(n int) []float64 {
	// start from 1 and split the last factor in two until there are n
	f := []float64{1}
	for i := 0; len(f) < n; i++ {
		k := i % len(f)
		h := f[k] / 2
		f[k] = h
		f = append(f, h)
	}
	return f
}

// weightedRoot builds the scalar-free root sum_e G[e]*y[e] is back-propagated from, as a tensor
// of y's shape whose element sum has that value. The effective upstream weighting of y is G in
// every mode; the modes differ in how many operations consume y and how long the path is:
//   0  y*G
//   1  y*(G-H) + y*H            two consumers (H = +1, -1, +1, ... : the second part sums to 0)
//   2  y*G + (y - y)            three consumers, two of them cancelling exactly
//   3  (1*y)*(G-H) + y*H        two consumers at different depths
//   4  (c1*y + ... + cn*y)*G    7..16 consumers of y (dyadic c_i summing to 1), summed in a chain
//   5  as 4, summed pairwise    (a wide, shallow graph)
//   6  (2*(0.5*(...(y))))*G     a tail of 2*35..2*45 scalings: more than 64 operations between
//                               y and the root
//   7  y*(G-1) + y              y is the second operand of the final Add (whose rule hands the
//                               upstream gradient object on as it is) and has another consumer
func weightedRoot(y tensor.Tensor, shape []int, g []float64, fan int) (tensor.Tensor, error) {
	if fan <= 0 || fan >= NFan {
		return y.Mul(lib.MustNew(shape, g, false))
	}
	if fan == 7 {
		g1 := make([]float64, len(g))
		for i := range g {
			g1[i] = g[i] - 1
		}
		s, err := y.Mul(lib.MustNew(shape, g1, false))
		if err != nil {
			return nil, err
		}
		return s.Add(y)
	}
	if fan == 6 {
		t := y
		for i := 0; i < 35+len(g)%11; i++ {
			t = t.Scale(2).Scale(0.5)
		}
		return t.Mul(lib.MustNew(shape, g, false))
	}
	if fan == 4 || fan == 5 {
		parts := []tensor.Tensor{}
		for _, c := range crowdFactors(7 + len(g)%10) {
			parts = append(parts, y.Scale(c))
		}
		var err error
		if fan == 4 {
			acc := parts[0]
			for _, p := range parts[1:] {
				if acc, err = acc.Add(p); err != nil {
					return nil, err
				}
			}
			return acc.Mul(lib.MustNew(shape, g, false))
		}
		for len(parts) > 1 {
			var next []tensor.Tensor
			for i := 0; i+1 < len(parts); i += 2 {
				s, err := parts[i].Add(parts[i+1])
				if err != nil {
					return nil, err
				}
				next = append(next, s)
			}
			if len(parts)%2 == 1 {
				next = append(next, parts[len(parts)-1])
			}
			parts = next
		}
		return parts[0].Mul(lib.MustNew(shape, g, false))
	}
	if fan == 2 {
		a, err := y.Mul(lib.MustNew(shape, g, false))
		if err != nil {
			return nil, err
		}
		d, err := y.Sub(y)
		if err != nil {
			return nil, err
		}
		return a.Add(d)
	}
	h := make([]float64, len(g))
	gh := make([]float64, len(g))
	for i := range g {
		h[i] = 1
		if i%2 == 1 {
			h[i] = -1
		}
		gh[i] = g[i] - h[i]
	}
	first := y
	if fan == 3 {
		first = y.Scale(1)
	}
	a, err := first.Mul(lib.MustNew(shape, gh, false))
	if err != nil {
		return nil, err
	}
	bb, err := y.Mul(lib.MustNew(shape, h, false))
	if err != nil {
		return nil, err
	}
	return a.Add(bb)
}

// rootGradientIsOnes: after BackPropagate(z) the root holds the seed - a gradient of its own
// shape that is 1 everywhere - and keeps holding it (nothing accumulates into the root).
func rootGradientIsOnes(z tensor.Tensor) *Failure {
	g := z.Gradient()
	if g == nil {
		return failf("the back-propagated root has no gradient")
	}
	gs, gv, err := lib.Read(g)
	if err != nil || !ref.EqShape(gs, z.Shape()) {
		return failf("the root's gradient has shape %v, the root %v (%v)", gs, z.Shape(), err)
	}
	for k, v := range gv {
		if v != 1 {
			return failf("the root's gradient [%d] = %v after the back-propagation, expected the seed 1", k, v)
		}
	}
	return nil
}

func drawFan(t *rapid.T) int {
	if rapid.IntRange(0, 3).Draw(t, "fanplain") > 0 {
		return 0
	}
	return rapid.IntRange(1, NFan-1).Draw(t, "fan")
}

func shapeStr(s []int) string { return fmt.Sprint(s) }

func allFinite(v []float64) bool {
	for _, x := range v {
		if math.IsNaN(x) || math.IsInf(x, 0) {
			return false
		}
	}
	return true
}

var _ = ref.Prod
