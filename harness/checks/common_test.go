package checks

import (
	"encoding/json"
	"flag"
	"fmt"
	"math"
	"os"
	"runtime/debug"
	"strconv"
	"strings"
	"testing"

	"github.com/sahandsafizadeh/qeep/tensor"
	"pgregory.net/rapid"

	"qeepverif/evid"
	"qeepverif/lib"
	"qeepverif/ref"
)

// Failure describes one violated expectation; a nil *Failure means the case passed.
type Failure struct {
	Msg string `json:"msg"`
}

func failf(f string, a ...any) *Failure { return &Failure{Msg: fmt.Sprintf(f, a...)} }

// Replay is the file written for a failing case; `verif.py replay` feeds it back.
type Replay struct {
	Property string          `json:"property"`
	Check    string          `json:"check"`
	Message  string          `json:"message"`
	Case     json.RawMessage `json:"case"`
}

var (
	tier      = "quick"
	scale     = 1.0
	replayOut = ""
	propID    = ""
	replayFns = map[string]func(json.RawMessage) *Failure{}
)

func thorough() bool { return tier == "thorough" }

func TestMain(m *testing.M) {
	flag.Parse()
	if v := os.Getenv("VERIF_TIER"); v != "" {
		tier = v
	}
	if v := os.Getenv("VERIF_SCALE"); v != "" {
		scale, _ = strconv.ParseFloat(v, 64)
	}
	replayOut = os.Getenv("VERIF_REPLAY_OUT")
	propID = os.Getenv("VERIF_PROPERTY")
	fp := os.Getenv("VERIF_FINDINGS")
	if fp == "" {
		fp = "/verif/known_findings.json"
	}
	if err := evid.LoadFindings(fp); err != nil {
		fmt.Fprintln(os.Stderr, "cannot load findings:", err)
		os.Exit(2)
	}
	if os.Getenv("VERIF_REPLAY_IN") == "" {
		shard, _ := strconv.Atoi(os.Getenv("VERIF_SHARD"))
		prehistory(shard)
	}
	code := m.Run()
	if out := os.Getenv("VERIF_OUT"); out != "" {
		if err := evid.Write(out, propID); err != nil {
			fmt.Fprintln(os.Stderr, "cannot write evidence part:", err)
			os.Exit(2)
		}
	}
	os.Exit(code)
}

// register makes a check replayable: name is "<property>/<sub-check>".
func register[C any](name string, check func(C) *Failure) {
	replayFns[name] = func(raw json.RawMessage) *Failure {
		var c C
		if err := json.Unmarshal(raw, &c); err != nil {
			return failf("cannot decode replay case: %v", err)
		}
		return guard(func() *Failure { return check(c) })
	}
}

// fail records the failing case as the replay file (the last write during shrinking is the
// minimal case) and fails the rapid test.
func fail(t *rapid.T, name string, c any, f *Failure) {
	evid.Failure()
	writeReplay(name, c, f)
	t.Fatalf("%s: %s", name, f.Msg)
}

func writeReplay(name string, c any, f *Failure) {
	if replayOut == "" {
		return
	}
	raw, err := json.Marshal(c)
	if err != nil {
		raw = []byte(`"unserialisable case"`)
	}
	r := Replay{Property: strings.SplitN(name, "/", 2)[0], Check: name, Message: f.Msg, Case: raw}
	b, _ := json.MarshalIndent(r, "", " ")
	_ = os.WriteFile(replayOut, b, 0o644)
}

// run drives one rapid property with n*scale cases.
func run(t *testing.T, n int, prop func(*rapid.T)) {
	t.Helper()
	k := int(float64(n) * scale)
	if k < 1 {
		k = 1
	}
	if err := flag.Set("rapid.checks", strconv.Itoa(k)); err != nil {
		t.Fatal(err)
	}
	evid.ClassN("requested_cases", k)
	rapid.Check(t, prop)
}

// TestReplay re-checks a saved case without rapid.
func TestReplay(t *testing.T) {
	p := os.Getenv("VERIF_REPLAY_IN")
	if p == "" {
		t.Skip("no replay requested")
	}
	b, err := os.ReadFile(p)
	if err != nil {
		t.Fatal(err)
	}
	var r Replay
	if err := json.Unmarshal(b, &r); err != nil {
		t.Fatal(err)
	}
	fn, ok := replayFns[r.Check]
	if !ok {
		t.Fatalf("no replay function for %q", r.Check)
	}
	if f := fn(r.Case); f != nil {
		fmt.Printf("REPLAY-FAILS check=%s: %s\n", r.Check, f.Msg)
		t.Fatalf("replay fails: %s", f.Msg)
	}
	fmt.Printf("REPLAY-PASSES check=%s\n", r.Check)
}

// guard turns a panic inside a check (in the library or in the harness) into a failure with
// the stack, so that the case is still written as a replay.
func guard(f func() *Failure) (res *Failure) {
	defer func() {
		if r := recover(); r != nil {
			res = failf("panic: %v\n%s", r, debug.Stack())
		}
	}()
	return f()
}

/* ---------- comparison helpers ---------- */

// closeTo compares got with want using a tolerance tied to the entry's conditioning scale.
func closeTo(got, want, scale float64) bool {
	if math.IsNaN(got) || math.IsInf(got, 0) {
		return false
	}
	tol := 1e-7*math.Max(scale, math.Abs(want)) + 1e-9
	d := math.Abs(got - want)
	if s := math.Max(scale, math.Abs(want)); s > 0 && d <= tol {
		evid.RelErr(d / math.Max(s, 1e-1))
	}
	return d <= tol
}

// NFan is the number of consumer topologies of weightedRoot.
const NFan = 4

// weightedRoot builds the scalar-free root sum_e G[e]*y[e] is back-propagated from, as a tensor
// of y's shape whose element sum has that value. The effective upstream weighting of y is G in
// every mode; the modes differ in how many operations consume y:
//   0  y*G
//   1  y*(G-H) + y*H            two consumers (H = +1, -1, +1, ... : the second part sums to 0)
//   2  y*G + (y - y)            three consumers, two of them cancelling exactly
//   3  (1*y)*(G-H) + y*H        two consumers at different depths
func weightedRoot(y tensor.Tensor, shape []int, g []float64, fan int) (tensor.Tensor, error) {
	if fan <= 0 || fan >= NFan {
		return y.Mul(lib.MustNew(shape, g, false))
	}
	if fan == 2 {
		a, err := y.Mul(lib.MustNew(shape, g, false))
		if err != nil {
			return nil, err
		}
		d, err := y.Sub(y)
		if err != nil {
			return nil, err
		}
		return a.Add(d)
	}
	h := make([]float64, len(g))
	gh := make([]float64, len(g))
	for i := range g {
		h[i] = 1
		if i%2 == 1 {
			h[i] = -1
		}
		gh[i] = g[i] - h[i]
	}
	first := y
	if fan == 3 {
		first = y.Scale(1)
	}
	a, err := first.Mul(lib.MustNew(shape, gh, false))
	if err != nil {
		return nil, err
	}
	b, err := y.Mul(lib.MustNew(shape, h, false))
	if err != nil {
		return nil, err
	}
	return a.Add(b)
}

func drawFan(t *rapid.T) int {
	if rapid.IntRange(0, 3).Draw(t, "fanplain") > 0 {
		return 0
	}
	return rapid.IntRange(1, NFan-1).Draw(t, "fan")
}

func shapeStr(s []int) string { return fmt.Sprint(s) }

func allFinite(v []float64) bool {
	for _, x := range v {
		if math.IsNaN(x) || math.IsInf(x, 0) {
			return false
		}
	}
	return true
}

var _ = ref.Prod
