package checks

import (
	"fmt"
	"math"
	"sort"
	"testing"

	"github.com/sahandsafizadeh/qeep/component/initializers"
	"github.com/sahandsafizadeh/qeep/component/layers"
	"github.com/sahandsafizadeh/qeep/tensor"
	exprand "golang.org/x/exp/rand"
	"pgregory.net/rapid"

	"qeepverif/evid"
	"qeepverif/lib"
	"qeepverif/prog"
	"qeepverif/ref"
)

// InitSpec is one initializer / random constructor with its parameters.
type InitSpec struct {
	Kind    string  `json:"kind"` // full uniform normal heuniform henormal xavieruniform xaviernormal randu randn
	NilConf bool    `json:"nil_conf,omitempty"`
	A       float64 `json:"a,omitempty"` // value | lower | mean
	B       float64 `json:"b,omitempty"` // upper | stddev
	FanIn   int     `json:"fan_in,omitempty"`
	FanOut  int     `json:"fan_out,omitempty"`
	Shape   []int   `json:"shape"`
	Tracked bool    `json:"tracked,omitempty"` // RandU / RandN config
	// ShapeNil: a rank-0 shape is passed as a nil slice instead of an empty one
	ShapeNil bool `json:"shape_nil,omitempty"`
}

func (s InitSpec) shapeArg() []int {
	if len(s.Shape) == 0 && s.ShapeNil {
		return nil
	}
	return ref.Cp(s.Shape)
}

// C18Case: specs are called in the given order (indexes into Specs); every call's sample is
// pooled per spec. Seed seeds the library's global random source for this case.
type C18Case struct {
	Seed  uint64     `json:"seed"`
	Specs []InitSpec `json:"specs"`
	Order []int      `json:"order"`
}

func init() { register("C18/initializers", checkC18) }

var c18Kinds = []string{"full", "uniform", "normal", "heuniform", "henormal", "xavieruniform", "xaviernormal", "randu", "randn"}

func genC18(t *rapid.T) C18Case {
	c := C18Case{Seed: rapid.Uint64().Draw(t, "seed")}
	ns := rapid.IntRange(1, 3).Draw(t, "nspecs")
	for i := 0; i < ns; i++ {
		s := InitSpec{Kind: rapid.SampledFrom(c18Kinds).Draw(t, "kind")}
		s.NilConf = rapid.IntRange(0, 3).Draw(t, "nilconf") == 0
		switch s.Kind {
		case "full":
			s.A = rapid.SampledFrom([]float64{0, 1, -2.5, 1e-3, 7}).Draw(t, "value")
		case "uniform", "randu":
			s.A = rapid.SampledFrom([]float64{-1, 0, -0.05, 2, -100, 0.5, 1e200, -1e-200, -1e308, 1e308, -1.7e308}).Draw(t, "lower")
			s.B = s.A + rapid.SampledFrom([]float64{0.1, 1, 2, 50, 1e-3}).Draw(t, "width")
			switch s.A {
			case 1e200:
				s.B = 3e200
			case -1e308:
				s.B = 1e308 // the width exceeds the float64 range
			case 1e308:
				s.B = 1.5e308 // the sum of the bounds does
			case -1.7e308:
				s.B = -1e308
			}
		case "normal", "randn":
			s.A = rapid.SampledFrom([]float64{0, 1, -3, 100}).Draw(t, "mean")
			s.B = rapid.SampledFrom([]float64{0.05, 1, 2, 0.001, 10, 1e-170, 1e160}).Draw(t, "sigma")
			if s.B < 1e-100 || s.B > 1e100 {
				s.A = 0 // a mean many orders of magnitude above sigma would absorb the draws in float64
			}
		default:
			s.FanIn = rapid.IntRange(1, 64).Draw(t, "fanin")
			s.FanOut = rapid.IntRange(1, 64).Draw(t, "fanout")
		}
		if s.Kind == "randu" || s.Kind == "randn" {
			s.NilConf = false
			s.Tracked = rapid.Bool().Draw(t, "tracked")
		}
		if rapid.IntRange(0, 2).Draw(t, "big") == 0 {
			s.Shape = rapid.SampledFrom([][]int{{4096}, {64, 64}, {16, 16, 16}, {8, 8, 8, 8}, {2048, 2}, {1, 4096}}).Draw(t, "bigshape")
		} else {
			s.Shape = prog.DrawShapeN(t, 0, 4, 8, 256, false)
			if len(s.Shape) == 0 {
				s.ShapeNil = rapid.Bool().Draw(t, "shapenil")
			}
		}
		c.Specs = append(c.Specs, s)
	}
	// every spec is called until its pool has >= 4096 draws (at least twice), interleaved
	need := make([]int, ns)
	for i, s := range c.Specs {
		n := ref.Prod(s.Shape)
		need[i] = (4096 + n - 1) / n
		if need[i] < 2 {
			need[i] = 2
		}
		if need[i] > 64 {
			need[i] = 64 // small shapes: pooled statistics are skipped below 4096 draws
		}
	}
	for {
		var open []int
		for i := range need {
			if need[i] > 0 {
				open = append(open, i)
			}
		}
		if len(open) == 0 {
			break
		}
		k := open[rapid.IntRange(0, len(open)-1).Draw(t, "next")]
		need[k]--
		c.Order = append(c.Order, k)
	}
	return c
}

// build constructs the initializer; afterwards the caller's config struct is overwritten
// (a loop that re-fills one config variable for the next layer): the initializer already
// constructed keeps the parameters it was given.
func (s InitSpec) build() (layers.Initializer, error) {
	switch s.Kind {
	case "full":
		if s.NilConf {
			if len(s.Shape)%2 == 1 {
				return &initializers.Full{}, nil // the zero value: the constant 0, like NewFull(nil)
			}
			return initializers.NewFull(nil), nil
		}
		c := &initializers.FullConfig{Value: s.A}
		in := initializers.NewFull(c)
		c.Value = 12345
		return in, nil
	case "uniform":
		if s.NilConf {
			return initializers.NewUniform(nil)
		}
		c := &initializers.UniformConfig{Lower: s.A, Upper: s.B}
		in, err := initializers.NewUniform(c)
		c.Lower, c.Upper = 1000, 2000
		return in, err
	case "normal":
		if s.NilConf {
			return initializers.NewNormal(nil)
		}
		c := &initializers.NormalConfig{Mean: s.A, StdDev: s.B}
		in, err := initializers.NewNormal(c)
		c.Mean, c.StdDev = 1000, 500
		return in, err
	case "heuniform":
		c := &initializers.HeUniformConfig{FanIn: s.FanIn}
		in, err := initializers.NewHeUniform(c)
		c.FanIn = 100000
		return in, err
	case "henormal":
		c := &initializers.HeNormalConfig{FanIn: s.FanIn}
		in, err := initializers.NewHeNormal(c)
		c.FanIn = 100000
		return in, err
	case "xavieruniform":
		c := &initializers.XavierUniformConfig{FanIn: s.FanIn, FanOut: s.FanOut}
		in, err := initializers.NewXavierUniform(c)
		c.FanIn, c.FanOut = 100000, 100000
		return in, err
	case "xaviernormal":
		c := &initializers.XavierNormalConfig{FanIn: s.FanIn, FanOut: s.FanOut}
		in, err := initializers.NewXavierNormal(c)
		c.FanIn, c.FanOut = 100000, 100000
		return in, err
	}
	return nil, fmt.Errorf("no initializer for %s", s.Kind)
}

// dist returns the distribution the statement prescribes: uniform on [lo,hi) or normal(mu,sigma).
func (s InitSpec) dist() (uniform bool, lo, hi, mu, sigma float64) {
	switch s.Kind {
	case "uniform":
		if s.NilConf {
			return true, -0.05, 0.05, 0, 0
		}
		return true, s.A, s.B, 0, 0
	case "randu":
		return true, s.A, s.B, 0, 0
	case "heuniform":
		r := math.Sqrt(6 / float64(s.FanIn))
		return true, -r, r, 0, 0
	case "xavieruniform":
		r := math.Sqrt(6 / float64(s.FanIn+s.FanOut))
		return true, -r, r, 0, 0
	case "normal":
		if s.NilConf {
			return false, 0, 0, 0, 0.05
		}
		return false, 0, 0, s.A, s.B
	case "randn":
		return false, 0, 0, s.A, s.B
	case "henormal":
		return false, 0, 0, 0, math.Sqrt(2 / float64(s.FanIn))
	case "xaviernormal":
		return false, 0, 0, 0, math.Sqrt(2 / float64(s.FanIn+s.FanOut))
	}
	return
}

const (
	c18Z  = 7.5  // normal-approximation z threshold: two-sided tail about 6e-14
	c18KS = 14.2 // DKW: P(D > sqrt(c18KS/n)) <= 2*exp(-2*14.2) = 9e-13
)

func lag1(v []float64, mean, variance float64) float64 {
	if variance == 0 {
		return 0
	}
	s := 0.0
	for i := 0; i+1 < len(v); i++ {
		s += (v[i] - mean) * (v[i+1] - mean)
	}
	return s / (float64(len(v)-1) * variance)
}

func checkC18(c C18Case) *Failure {
	if len(c.Specs) == 0 || len(c.Specs) > 4 || len(c.Order) > 400 {
		return nil
	}
	exprand.Seed(c.Seed)
	inits := make([]layers.Initializer, len(c.Specs))
	for i, s := range c.Specs {
		if !ref.ValidDims(s.Shape) || ref.Prod(s.Shape) > 1<<16 {
			return nil
		}
		if s.Kind == "randu" || s.Kind == "randn" {
			continue
		}
		in, err := s.build()
		if err != nil {
			return failf("constructor of %s rejected valid parameters %+v: %v", s.Kind, s, err)
		}
		inits[i] = in
	}
	calls := make([][][]float64, len(c.Specs))
	for _, k := range c.Order {
		if k < 0 || k >= len(c.Specs) {
			return nil
		}
		s := c.Specs[k]
		var x tensor.Tensor
		var err error
		wantTracked := true
		switch s.Kind {
		case "randu":
			x, err = tensor.RandU(s.shapeArg(), s.A, s.B, lib.Conf(s.Tracked))
			wantTracked = s.Tracked
		case "randn":
			x, err = tensor.RandN(s.shapeArg(), s.A, s.B, lib.Conf(s.Tracked))
			wantTracked = s.Tracked
		default:
			x, err = inits[k].Init(s.shapeArg())
		}
		if err != nil {
			return failf("%s rejected shape %v: %v", s.Kind, s.Shape, err)
		}
		xs, xv, err := lib.Read(x)
		if err != nil {
			return failf("%s result unreadable: %v", s.Kind, err)
		}
		if !ref.EqShape(xs, s.Shape) {
			return failf("%s returned shape %v, requested %v", s.Kind, xs, s.Shape)
		}
		if len(calls[k]) < 24 {
			// tracked-ness is observable through a back-propagation; every result of the object
			// is a fresh tracked leaf, not only the first (after which the object's earlier
			// results have been back-propagated through)
			if err := tensor.BackPropagate(x.Scale(1)); err != nil {
				return failf("BackPropagate on %s result: %v", s.Kind, err)
			}
			if (x.Gradient() != nil) != wantTracked {
				return failf("%s returned a tensor with tracked = %v, expected %v", s.Kind, x.Gradient() != nil, wantTracked)
			}
		}
		calls[k] = append(calls[k], xv)
	}
	pooledAny := false
	for k, s := range c.Specs {
		if len(calls[k]) == 0 {
			continue
		}
		uniform, lo, hi, mu, sigma := s.dist()
		if s.Kind == "full" {
			want := s.A
			if s.NilConf {
				want = 0
			}
			for _, cv := range calls[k] {
				for _, v := range cv {
					if v != want {
						return failf("Full holds %v, configured constant %v", v, want)
					}
				}
			}
			evid.Class("C18.kind=full")
			continue
		}
		// everything below works on standardised draws: (v-lo)/(hi-lo) against U(0,1), or
		// (v-mu)/sigma against N(0,1), so that extreme but valid parameters cannot overflow
		std := func(v float64) float64 {
			if uniform {
				return (v/2 - lo/2) / (hi/2 - lo/2) // hi - lo itself may exceed the float64 range
			}
			return (v - mu) / sigma
		}
		var pool []float64
		for ci, cv := range calls[k] {
			for _, v := range cv {
				if math.IsNaN(v) || math.IsInf(v, 0) {
					return failf("%s %+v produced %v", s.Kind, s, v)
				}
				if uniform && !(v >= lo && v < hi) {
					return failf("%s produced %v outside [%v, %v)", s.Kind, v, lo, hi)
				}
			}
			if len(cv) >= 2 {
				// no call returns the values of ANY earlier call on this object (continuous draws)
				for pj := 0; pj < ci; pj++ {
					same := true
					for j := range cv {
						if cv[j] != calls[k][pj][j] {
							same = false
							break
						}
					}
					if same {
						return failf("%s: calls %d and %d on one object with shape %v returned identical values (draws are not fresh)", s.Kind, pj+1, ci+1, s.Shape)
					}
				}
			}
			for _, v := range cv {
				pool = append(pool, std(v))
			}
		}
		evid.Class("C18.kind=" + s.Kind)
		n := float64(len(pool))
		if len(pool) < 4096 {
			continue
		}
		pooledAny = true
		m, sd := 0.0, 1.0
		if uniform {
			m, sd = 0.5, 1/math.Sqrt(12)
		}
		mean := 0.0
		for _, v := range pool {
			mean += v
		}
		mean /= n
		if z := (mean - m) / (sd / math.Sqrt(n)); math.Abs(z) > c18Z {
			return failf("%s %+v: standardised mean of %d draws = %v, expected %v (z = %.1f)", s.Kind, s, len(pool), mean, m, z)
		}
		s2 := 0.0
		for _, v := range pool {
			s2 += (v - m) * (v - m)
		}
		s2 /= n
		// variance of the squared deviation: (mu4 - sigma^4)/n; mu4 = 9/5 sigma^4 (uniform), 3 sigma^4 (normal)
		k4 := 2.0
		if uniform {
			k4 = 0.8
		}
		if z := (s2 - sd*sd) / (sd * sd * math.Sqrt(k4/n)); math.Abs(z) > c18Z {
			return failf("%s %+v: standard deviation of %d draws is %.4f times the prescribed one (z = %.1f)", s.Kind, s, len(pool), math.Sqrt(s2)/sd, z)
		}
		sorted := append([]float64{}, pool...)
		sort.Float64s(sorted)
		d := 0.0
		for i, v := range sorted {
			cdf := v
			if !uniform {
				cdf = 0.5 * math.Erfc(-v/math.Sqrt2)
			}
			d = math.Max(d, math.Max(math.Abs(cdf-float64(i)/n), math.Abs(float64(i+1)/n-cdf)))
		}
		if d > math.Sqrt(c18KS/n) {
			return failf("%s %+v: Kolmogorov-Smirnov distance of %d draws to the prescribed distribution = %.4f > %.4f", s.Kind, s, len(pool), d, math.Sqrt(c18KS/n))
		}
		// independence of neighbouring positions (call-major order) and of the same
		// position across calls (position-major order)
		if r := lag1(pool, mean, s2); math.Abs(r) > c18Z/math.Sqrt(n) {
			return failf("%s %+v: lag-1 correlation between neighbouring elements = %.4f over %d draws", s.Kind, s, r, len(pool))
		}
		if len(calls[k]) >= 8 {
			var pm []float64
			for j := range calls[k][0] {
				for ci := range calls[k] {
					pm = append(pm, std(calls[k][ci][j]))
				}
			}
			if r := lag1(pm, mean, s2); math.Abs(r) > c18Z/math.Sqrt(n) {
				return failf("%s %+v: correlation of the same position across consecutive calls = %.4f over %d draws", s.Kind, s, r, len(pool))
			}
			evid.Class("C18.cross_call_correlation_checked")
		}
		evid.Class("C18.pooled>=4096:" + s.Kind)
		if s.NilConf {
			evid.Class("C18.nil_config_pooled")
		}
	}
	evid.Eval()
	if pooledAny {
		evid.NonTrivial(c)
	}
	return nil
}

func TestC18_initializers(t *testing.T) {
	run(t, 1500, func(rt *rapid.T) {
		c := genC18(rt)
		if f := guard(func() *Failure { return checkC18(c) }); f != nil {
			fail(rt, "C18/initializers", c, f)
		}
	})
}
