package checks

import (
	"fmt"
	"math"
	"testing"

	"github.com/sahandsafizadeh/qeep/component/initializers"
	"github.com/sahandsafizadeh/qeep/component/layers"
	"github.com/sahandsafizadeh/qeep/component/optimizers"
	"github.com/sahandsafizadeh/qeep/tensor"
	"pgregory.net/rapid"

	"qeepverif/evid"
	"qeepverif/lib"
	"qeepverif/prog"
	"qeepverif/ref"
)

// FCRound is one round of a history on an FC layer: optional replacement of W and/or B
// through the Weights() pointers, a Forward on X and a gradient check with upstream G.
type FCRound struct {
	NewW     []float64 `json:"new_w,omitempty"`
	NewB     []float64 `json:"new_b,omitempty"`
	FreshPtr bool      `json:"fresh_ptr,omitempty"` // call Weights() again instead of reusing the first result
	Batch    int       `json:"batch"`
	X        []float64 `json:"x"`
	XTracked bool      `json:"x_tracked,omitempty"`
	G        []float64 `json:"g"`
	Fan      int       `json:"fan,omitempty"` // consumers of the layer output (weightedRoot)
	// ResetBefore: W, B (through the Weights() pointers) and a tracked input are reset to fresh
	// tracked leaves between Forward and BackPropagate
	ResetBefore bool `json:"reset_before,omitempty"`
	Row      int       `json:"row"` // row changed for the row-independence variant
	// after the gradient check: Update = both parameters are updated through the pointers by
	// SGD (instead of only being reset); FreezeW / FreezeB = the parameter is then made a
	// fresh UNtracked leaf (ResetGradContext(false)) and must receive no gradient next round
	// Both: the second Forward (with one input row changed) is weighted and back-propagated as
	// well, after the first: two graphs built before any back-propagation share W and B
	Both    bool `json:"both,omitempty"`
	Update  bool `json:"update,omitempty"`
	FreezeW bool `json:"freeze_w,omitempty"`
	FreezeB bool `json:"freeze_b,omitempty"`
}

type C16Case struct {
	F      int       `json:"f"`
	O      int       `json:"o"`
	Init   int       `json:"init"` // 0 default initializers, 1 custom Full, 2 custom Uniform / Normal, 3 one Full object for both
	Rounds []FCRound `json:"rounds"`
	// Other: a second FC layer of the same dimensions is constructed before (1) or after (2) the
	// checked one; in every round its parameters are replaced, it evaluates another batch and
	// is back-propagated right before the checked layer's Forward
	Other int `json:"other,omitempty"`
}

func init() { register("C16/fc", checkC16) }

func genC16(t *rapid.T) C16Case {
	c := C16Case{F: rapid.IntRange(1, 5).Draw(t, "f"), O: rapid.IntRange(1, 5).Draw(t, "o"), Init: rapid.IntRange(0, 3).Draw(t, "init")}
	if rapid.IntRange(0, 7).Draw(t, "wide") == 0 {
		c.F = rapid.IntRange(6, 70).Draw(t, "widef")
	}
	if rapid.IntRange(0, 15).Draw(t, "manyouts") == 0 {
		c.O = rapid.IntRange(6, 40).Draw(t, "wideo")
	}
	if rapid.IntRange(0, 2).Draw(t, "otherlayer") == 0 {
		c.Other = rapid.IntRange(1, 2).Draw(t, "otherwhen")
	}
	nr := rapid.IntRange(1, 4).Draw(t, "rounds")
	if c.F <= 5 && c.O <= 5 && rapid.IntRange(0, 11).Draw(t, "manyrounds") == 0 {
		nr = rapid.IntRange(9, 24).Draw(t, "roundsmany") // one layer object used for a long time
	}
	for r := 0; r < nr; r++ {
		var rd FCRound
		if r == 0 && c.Init == 0 || rapid.IntRange(0, 2).Draw(t, "replaceW") > 0 {
			rd.NewW = prog.DrawValsMode(t, c.O, 2*r, "std")
		}
		if rapid.IntRange(0, 2).Draw(t, "replaceB") > 0 {
			rd.NewB = prog.DrawValsMode(t, c.O, 2*r+1, "std")
		}
		rd.FreshPtr = rapid.Bool().Draw(t, "freshptr")
		rd.Batch = rapid.IntRange(1, 5).Draw(t, "batch")
		if rapid.IntRange(0, 3).Draw(t, "batch1") == 0 {
			rd.Batch = 1
		}
		rd.X = prog.DrawValsMode(t, rd.Batch*c.F, 9+r, "std")
		if c.F <= 5 && rapid.IntRange(0, 9).Draw(t, "mags") == 0 {
			// tiny weights against huge inputs (and an exact zero weight): products far from 1
			// in either factor, ordinary in value
			rd.NewW = make([]float64, c.O)
			for i := range rd.NewW {
				rd.NewW[i] = rapid.SampledFrom([]float64{1e-250, -3e-250, 2.5e-245, 0, 1e-300}).Draw(t, "tinyw")
			}
			for i := range rd.X {
				rd.X[i] *= 1e300
			}
		}
		rd.XTracked = rapid.Bool().Draw(t, "xtracked")
		rd.G = drawWeights(t, rd.Batch*c.O)
		rd.Fan = drawFan(t)
		rd.ResetBefore = rapid.IntRange(0, 4).Draw(t, "resetbefore") == 0
		rd.Row = rapid.IntRange(0, rd.Batch-1).Draw(t, "row")
		rd.Both = rapid.IntRange(0, 2).Draw(t, "both") == 0
		rd.Update = rapid.IntRange(0, 2).Draw(t, "update") == 0
		rd.FreezeW = rapid.IntRange(0, 5).Draw(t, "freezew") == 0
		rd.FreezeB = rapid.IntRange(0, 5).Draw(t, "freezeb") == 0
		c.Rounds = append(c.Rounds, rd)
	}
	return c
}

func checkC16(c C16Case) *Failure {
	if c.F < 1 || c.O < 1 || c.F > 128 || c.O > 128 {
		return nil
	}
	conf := &layers.FCConfig{Inputs: c.F, Outputs: c.O}
	switch c.Init {
	case 1:
		conf.Initializers = map[string]layers.Initializer{
			"Weight": initializers.NewFull(&initializers.FullConfig{Value: 1.5}),
			"Bias":   initializers.NewFull(&initializers.FullConfig{Value: -0.25}),
		}
	case 3:
		f := initializers.NewFull(&initializers.FullConfig{Value: 0.75})
		conf.Initializers = map[string]layers.Initializer{"Weight": f, "Bias": f}
	case 2:
		u, err := initializers.NewUniform(&initializers.UniformConfig{Lower: -1, Upper: 2})
		if err != nil {
			return failf("NewUniform: %v", err)
		}
		n, err := initializers.NewNormal(&initializers.NormalConfig{Mean: 0.5, StdDev: 0.25})
		if err != nil {
			return failf("NewNormal: %v", err)
		}
		conf.Initializers = map[string]layers.Initializer{"Weight": u, "Bias": n}
	}
	newOther := func() (*layers.FC, error) {
		return layers.NewFC(&layers.FCConfig{Inputs: c.F, Outputs: c.O, Initializers: map[string]layers.Initializer{
			"Weight": initializers.NewFull(&initializers.FullConfig{Value: -3.5}),
			"Bias":   initializers.NewFull(&initializers.FullConfig{Value: 11}),
		}})
	}
	var other *layers.FC
	var err error
	if c.Other == 1 {
		if other, err = newOther(); err != nil {
			return failf("NewFC(%d -> %d) failed: %v", c.F, c.O, err)
		}
	}
	fc, err := layers.NewFC(conf)
	if err != nil {
		return failf("NewFC(%d -> %d) failed: %v", c.F, c.O, err)
	}
	if c.Other > 0 {
		evid.Class("C16.second_layer_in_use")
	}
	if c.Other == 2 {
		if other, err = newOther(); err != nil {
			return failf("NewFC(%d -> %d) failed: %v", c.F, c.O, err)
		}
	}
	first := fc.Weights()
	if len(first) != 2 || first[0].Value == nil || first[1].Value == nil {
		return failf("Weights() did not return two pointers")
	}
	if !first[0].Trainable || !first[1].Trainable {
		return failf("FC parameters are not reported as trainable")
	}
	sawBatch1, sawBatchN, replaced := false, false, 0
	wTracked, bTracked := true, true // initializers return tracked tensors
	opt := optimizers.NewSGD(&optimizers.SGDConfig{LearningRate: 0.125})
	for ri, rd := range c.Rounds {
		if rd.Batch < 1 || len(rd.X) != rd.Batch*c.F || len(rd.G) != rd.Batch*c.O || rd.Row < 0 || rd.Row >= rd.Batch {
			return nil
		}
		ws := first
		if rd.FreshPtr {
			ws = fc.Weights()
		}
		if rd.NewW != nil {
			if len(rd.NewW) != c.O {
				return nil
			}
			*ws[0].Value = lib.MustNew([]int{c.O}, rd.NewW, true)
			wTracked = true
			replaced++
		}
		if rd.NewB != nil {
			if len(rd.NewB) != c.O {
				return nil
			}
			*ws[1].Value = lib.MustNew([]int{c.O}, rd.NewB, true)
			bTracked = true
			replaced++
		}
		// the parameters the layer must be using now, read through the same pointers (no extra
		// Weights() call: a layer that refreshes internal state only there must not be helped)
		wT, bT := *ws[0].Value, *ws[1].Value
		wS, wV, err := lib.Read(wT)
		if err != nil || len(wS) != 1 || wS[0] != c.O {
			return failf("round %d: weight tensor has shape %v, expected [%d] (%v)", ri, wS, c.O, err)
		}
		bS, bV, err := lib.Read(bT)
		if err != nil || len(bS) != 1 || bS[0] != c.O {
			return failf("round %d: bias tensor has shape %v, expected [%d] (%v)", ri, bS, c.O, err)
		}
		if rd.NewW != nil {
			for k := range wV {
				if !lib.SameBits(wV[k], rd.NewW[k]) {
					return failf("round %d: Weights()[0] does not address the tensor just installed", ri)
				}
			}
		}
		if other != nil {
			// the other layer is used like any layer: new parameters, a forward pass, a backward pass
			ow := other.Weights()
			ov := make([]float64, c.O)
			for k := range ov {
				ov[k] = 2.5 + float64(k+ri)
			}
			*ow[0].Value = lib.MustNew([]int{c.O}, ov, true)
			xo := make([]float64, (rd.Batch+1)*c.F)
			for k := range xo {
				xo[k] = -1.25 * float64(k+1)
			}
			yo, err := other.Forward(lib.MustNew([]int{rd.Batch + 1, c.F}, xo, true))
			if err != nil {
				return failf("round %d: Forward of a second layer failed: %v", ri, err)
			}
			if err := tensor.BackPropagate(yo); err != nil {
				return failf("round %d: BackPropagate through a second layer failed: %v", ri, err)
			}
		}
		x := lib.MustNew([]int{rd.Batch, c.F}, rd.X, rd.XTracked)
		y, err := fc.Forward(x)
		if err != nil {
			return failf("round %d: Forward on [%d,%d] failed: %v", ri, rd.Batch, c.F, err)
		}
		// reference with seeds on W, B, x
		ns := 2*c.O + rd.Batch*c.F
		run := func(avg bool) (ref.T, *ref.Ctx) {
			ctx := ref.NewCtx(ns)
			ctx.BcastAvg = avg
			rw := ctx.SeedBlock(ref.FromVals([]int{c.O}, wV), 0)
			rb := ctx.SeedBlock(ref.FromVals([]int{c.O}, bV), c.O)
			rx := ctx.SeedBlock(ref.FromVals([]int{rd.Batch, c.F}, rd.X), 2*c.O)
			return refFC(ctx, rx, rw, rb), ctx
		}
		want, _ := run(false)
		scale := make([]float64, len(want.E))
		for bi := 0; bi < rd.Batch; bi++ {
			sa := 0.0
			for d := 0; d < c.F; d++ {
				sa += math.Abs(rd.X[bi*c.F+d])
			}
			for o := 0; o < c.O; o++ {
				scale[bi*c.O+o] = math.Abs(wV[o])*sa + math.Abs(bV[o])
			}
		}
		if f := compareTensor(fmt.Sprintf("round %d: FC.Forward", ri), y, want, cmpTol, scale); f != nil {
			return f
		}
		// each output row depends only on its own input row
		x2v := append([]float64{}, rd.X...)
		for d := 0; d < c.F; d++ {
			x2v[rd.Row*c.F+d] = x2v[rd.Row*c.F+d]*-1.5 + 0.3
		}
		y2, err := fc.Forward(lib.MustNew([]int{rd.Batch, c.F}, x2v, false))
		if err != nil {
			return failf("round %d: second Forward failed: %v", ri, err)
		}
		_, yv, _ := lib.Read(y)
		_, y2v, err := lib.Read(y2)
		if err != nil || len(y2v) != len(yv) {
			return failf("round %d: second Forward result unreadable", ri)
		}
		for bi := 0; bi < rd.Batch; bi++ {
			if bi == rd.Row {
				continue
			}
			for o := 0; o < c.O; o++ {
				if !lib.SameBits(yv[bi*c.O+o], y2v[bi*c.O+o]) {
					return failf("round %d: changing input row %d changed output row %d", ri, rd.Row, bi)
				}
			}
		}
		// gradients
		gt := lib.MustNew([]int{rd.Batch, c.O}, rd.G, false)
		z, err := weightedRoot(y, []int{rd.Batch, c.O}, rd.G, rd.Fan)
		if err != nil {
			return failf("round %d: weighting failed: %v", ri, err)
		}
		if rd.ResetBefore {
			if wTracked {
				wT.ResetGradContext(true)
			}
			if bTracked {
				bT.ResetGradContext(true)
			}
			if rd.XTracked {
				x.ResetGradContext(true)
			}
			evid.Class("C16.parameters_reset_between_forward_and_backward")
		}
		if err := tensor.BackPropagate(z); err != nil {
			return failf("round %d: BackPropagate returned error: %v", ri, err)
		}
		if wTracked || bTracked || rd.XTracked {
			if f := rootGradientIsOnes(z); f != nil {
				return failf("round %d (root topology %d): %s", ri, rd.Fan, f.Msg)
			}
		}
		both := rd.Both && rd.Batch == 1 // (batch 1: the expected sum does not involve finding D2)
		var want2 ref.T
		if both {
			// the second graph over the same parameters, built before the first back-propagation;
			// the gradients are read in between (reading is an observation, not a step)
			for _, pt := range []tensor.Tensor{wT, bT, x} {
				if g := pt.Gradient(); g != nil {
					if _, _, err := lib.Read(g); err != nil {
						return failf("round %d: gradient unreadable between two back-propagations: %v", ri, err)
					}
				}
			}
			z2, err := y2.Mul(gt)
			if err != nil {
				return failf("round %d: weighting failed: %v", ri, err)
			}
			if err := tensor.BackPropagate(z2); err != nil {
				return failf("round %d: second BackPropagate returned error: %v", ri, err)
			}
			ctx := ref.NewCtx(ns)
			rw := ctx.SeedBlock(ref.FromVals([]int{c.O}, wV), 0)
			rb := ctx.SeedBlock(ref.FromVals([]int{c.O}, bV), c.O)
			want2 = refFC(ctx, ref.FromVals([]int{rd.Batch, c.F}, x2v), rw, rb)
		}
		var avgY *ref.T
		type target struct {
			name    string
			t       tensor.Tensor
			slot, n int
			shape   []int
			tracked bool
		}
		for _, tg := range []target{{"W", wT, 0, c.O, []int{c.O}, wTracked}, {"B", bT, c.O, c.O, []int{c.O}, bTracked}, {"x", x, 2 * c.O, rd.Batch * c.F, []int{rd.Batch, c.F}, rd.XTracked}} {
			g := tg.t.Gradient()
			if !tg.tracked {
				if g != nil {
					return failf("round %d: untracked %s received a gradient", ri, tg.name)
				}
				continue
			}
			if g == nil {
				return failf("round %d: %s received no gradient (is the layer using the tensor behind Weights()?)", ri, tg.name)
			}
			gs, gv, err := lib.Read(g)
			if err != nil {
				return failf("round %d: gradient of %s unreadable: %v", ri, tg.name, err)
			}
			if !ref.EqShape(gs, tg.shape) {
				return failf("round %d: gradient of %s has shape %v, expected %v", ri, tg.name, gs, tg.shape)
			}
			w, sc := prog.Adjoint(want, rd.G, tg.slot, tg.n)
			if both && tg.name != "x" {
				// gradients of the two graphs add up on the shared parameters
				w2, sc2 := prog.Adjoint(want2, rd.G, tg.slot, tg.n)
				for k := range w {
					w[k] += w2[k]
					sc[k] += sc2[k]
				}
			}
			bad := -1
			for k := range gv {
				if !closeTo(gv[k], w[k], sc[k]) {
					bad = k
					break
				}
			}
			if bad < 0 {
				continue
			}
			if evid.MatcherOpen("C16", "bcast_avg") && allFinite(gv) {
				if avgY == nil {
					a, _ := run(true)
					avgY = &a
				}
				aw, asc := prog.Adjoint(*avgY, rd.G, tg.slot, tg.n)
				match := true
				for k := range gv {
					if !closeTo(gv[k], aw[k], asc[k]) {
						match = false
						break
					}
				}
				if match {
					evid.Known("D2-C16", map[string]any{"case": c, "round": ri, "param": tg.name, "got": gv, "derivative": w})
					continue
				}
			}
			return failf("round %d (batch %d): gradient of %s [%d] = %v, derivative of the affine formula = %v", ri, rd.Batch, tg.name, bad, gv[bad], w[bad])
		}
		if wT == bT {
			return failf("round %d: Weight and Bias are one and the same tensor object", ri)
		}
		// optionally an optimizer step through the pointers, then make the parameters fresh
		// leaves again as a training loop would - tracked, or frozen (untracked)
		if rd.Update && wTracked && bTracked {
			if err := opt.Update(ws[0].Value); err != nil {
				return failf("round %d: SGD.Update(W) failed: %v", ri, err)
			}
			if err := opt.Update(ws[1].Value); err != nil {
				return failf("round %d: SGD.Update(B) failed: %v", ri, err)
			}
		}
		wTracked, bTracked = !rd.FreezeW, !rd.FreezeB
		(*ws[0].Value).ResetGradContext(wTracked)
		(*ws[1].Value).ResetGradContext(bTracked)
		if rd.Batch == 1 {
			sawBatch1 = true
		} else {
			sawBatchN = true
		}
	}
	evid.Eval()
	if sawBatch1 {
		evid.Class("C16.batch=1")
	}
	if sawBatchN {
		evid.Class("C16.batch>1")
	}
	if replaced >= 2 {
		evid.Class("C16.parameters_replaced_twice_or_more")
	}
	if len(c.Rounds) >= 9 {
		evid.Class("C16.nine_or_more_rounds_on_one_layer")
	}
	evid.Class(fmt.Sprintf("C16.init=%d", c.Init))
	if c.O >= 2 && sawBatchN {
		evid.NonTrivial(c)
	}
	return nil
}

func TestC16_fc(t *testing.T) {
	run(t, 10000, func(rt *rapid.T) {
		c := genC16(rt)
		if f := guard(func() *Failure { return checkC16(c) }); f != nil {
			fail(rt, "C16/fc", c, f)
		}
	})
}

/* ---------- C17: SGD ---------- */

// C17Case: the weight is leaf 0 of P; its gradient comes from back-propagating the last value
// of P. Mode 0: valid pointer; 1: nil pointer; 2: pointer to a nil tensor.
type C17Case struct {
	P       prog.Program `json:"p"`
	NilConf bool         `json:"nil_conf,omitempty"`
	LR      float64      `json:"lr,omitempty"`
	Mode    int          `json:"mode,omitempty"`
	// Second: a second Update of the same (previous) tensor object by the same optimizer
	// after its gradient changed: 1 = a graph built earlier (w.Scale(3)) is back-propagated
	// after the first update and accumulates on w; 2 = w is reset, used in a new graph
	// (w.Scale(2)) and back-propagated again.
	Second int `json:"second,omitempty"`
	// Others: after the weight, every other value of the program that holds a gradient (leaves
	// and intermediate results) is updated by the same optimizer: 1 = each through a pointer
	// variable of its own, 2 = all through the one pointer variable that served the weight
	Others int `json:"others,omitempty"`
	// Second optimizer with another learning rate, constructed before (1) or after (2) the
	// checked one; it updates a tensor of its own right before every Update of the checked one
	OtherOpt int `json:"other_opt,omitempty"`
	// Repeat: afterwards the same optimizer updates one small tensor this many more times
	// through one pointer variable (reset, new gradient k, Update), every step checked
	Repeat int `json:"repeat,omitempty"`
	// Reject: before the checked Update the same optimizer handles calls that must be rejected
	// (nil pointer, pointer to a nil tensor, a tracked tensor without gradient); Zero: for
	// learning rate 0 the optimizer is a zero-value struct (&optimizers.SGD{})
	Reject bool `json:"reject,omitempty"`
	Zero   bool `json:"zero,omitempty"`
	// GradUse: before the Update the weight's gradient tensor is made a tracked leaf and used in
	// a graph of its own, which is back-propagated after the Update: the Update leaves the
	// gradient tensor (values AND grad context) alone
	GradUse bool `json:"grad_use,omitempty"`
}

func init() { register("C17/sgd", checkC17) }

func genC17(t *rapid.T) C17Case {
	cfg := prog.DefaultCfg(prog.Differentiable33)
	cfg.MaxRank = 5
	cfg.MaxElems = 48
	g := prog.NewGen(t, cfg)
	s := g.DrawShape(0)
	big := rapid.IntRange(0, 19).Draw(t, "bigweight") == 0
	if big {
		// a large weight of awkward size; its gradient comes from one simple operation
		s = rapid.SampledFrom([][]int{{50, 41}, {1501}, {17, 129}, {5, 700}, {65, 33}, {2050}, {33, 3, 21}}).Draw(t, "bigshape")
		g.Cfg.MaxElems = 4200
		g.Cfg.Ops = []string{"mul", "pow", "sin", "scale"}
	}
	w := g.AddLeaf(s, rapid.IntRange(0, 5).Draw(t, "wtracked") > 0)
	pool := []int{w}
	if rapid.Bool().Draw(t, "otherleaf") {
		pool = append(pool, g.AddLeaf(s, rapid.Bool().Draw(t, "otracked")))
	}
	nn := rapid.IntRange(1, 6).Draw(t, "nnodes")
	if big {
		nn = 1
	}
	for len(g.P.Nodes) < nn {
		before := len(g.Vals)
		if len(g.P.Nodes) == 0 {
			g.AddNode([]int{w}) // the first operation certainly uses the weight
		} else {
			g.AddNode(pool)
		}
		for id := before; id < len(g.Vals); id++ {
			pool = append(pool, id)
		}
	}
	c := C17Case{P: g.P}
	c.NilConf = rapid.IntRange(0, 4).Draw(t, "nilconf") == 0
	c.LR = rapid.SampledFrom([]float64{0.01, 0.5, 0, -0.1, 1e3, 1e-6, 1, -2, 2e-7, 0.25, 0.2500004, 0.0100003, -0.1000002}).Draw(t, "lr")
	if rapid.IntRange(0, 9).Draw(t, "badptr") == 0 {
		c.Mode = rapid.IntRange(1, 2).Draw(t, "mode")
	}
	if rapid.IntRange(0, 2).Draw(t, "second") == 0 {
		c.Second = rapid.IntRange(1, 2).Draw(t, "secondkind")
	}
	if rapid.IntRange(0, 2).Draw(t, "others") == 0 {
		c.Others = rapid.IntRange(1, 2).Draw(t, "otherskind")
	}
	if rapid.IntRange(0, 2).Draw(t, "otheropt") == 0 {
		c.OtherOpt = rapid.IntRange(1, 2).Draw(t, "otheroptwhen")
	}
	if rapid.IntRange(0, 7).Draw(t, "repeat") == 0 {
		c.Repeat = rapid.IntRange(9, 40).Draw(t, "repeatn")
	}
	c.Reject = rapid.IntRange(0, 3).Draw(t, "rejectfirst") == 0
	c.Zero = rapid.Bool().Draw(t, "zerovalue")
	c.GradUse = rapid.IntRange(0, 4).Draw(t, "graduse") == 0
	return c
}

func checkC17(c C17Case) *Failure {
	if len(c.P.Leaves) == 0 {
		return failf("malformed case")
	}
	var conf *optimizers.SGDConfig
	lr := 0.01
	if !c.NilConf {
		conf = &optimizers.SGDConfig{LearningRate: c.LR}
		lr = c.LR
	}
	var otherOpt *optimizers.SGD
	if c.OtherOpt == 1 {
		otherOpt = optimizers.NewSGD(&optimizers.SGDConfig{LearningRate: lr + 0.375})
	}
	opt := optimizers.NewSGD(conf)
	if opt == nil {
		return failf("NewSGD returned nil")
	}
	if conf != nil {
		conf.LearningRate = 123 // the caller reuses its config struct for the next optimizer
	}
	if c.Zero && !c.NilConf && c.LR == 0 {
		opt = &optimizers.SGD{} // the zero value: learning rate 0
		evid.Class("C17.zero_value_struct")
	}
	if c.OtherOpt == 2 {
		otherOpt = optimizers.NewSGD(&optimizers.SGDConfig{LearningRate: lr + 0.375})
	}
	if c.Reject {
		// calls that must be rejected, on the optimizer that serves the valid ones afterwards
		if err := opt.Update(nil); err == nil {
			return failf("Update(nil pointer) returned no error")
		}
		var none tensor.Tensor
		if err := opt.Update(&none); err == nil || none != nil {
			return failf("Update(pointer to nil tensor) returned no error (or replaced it)")
		}
		fresh := lib.MustNew([]int{2}, []float64{1, 2}, true)
		keep := fresh
		if err := opt.Update(&fresh); err == nil || fresh != keep {
			return failf("Update of a tensor without gradient returned no error (or replaced it)")
		}
		// the rejected tensor is still the tracked leaf it was
		if err := tensor.BackPropagate(keep.Scale(3)); err != nil || keep.Gradient() == nil {
			return failf("after a rejected Update the tensor is no longer a usable tracked leaf (BackPropagate: %v, gradient nil: %v)", err, keep.Gradient() == nil)
		}
		if err := opt.Update(&fresh); err != nil {
			return failf("Update of the tensor rejected earlier, now with a gradient, failed: %v", err)
		}
		evid.Class("C17.rejected_updates_first")
	}
	if otherOpt != nil {
		evid.Class("C17.second_optimizer_in_use")
	}
	otherStep := func() *Failure {
		if otherOpt == nil {
			return nil
		}
		u := lib.MustNew([]int{3}, []float64{1, 2, 3}, true)
		if err := tensor.BackPropagate(u.Scale(2)); err != nil {
			return failf("BackPropagate failed: %v", err)
		}
		if err := otherOpt.Update(&u); err != nil {
			return failf("Update by a second optimizer failed: %v", err)
		}
		_, uv, err := lib.Read(u)
		if err != nil || len(uv) != 3 {
			return failf("result of a second optimizer's Update unreadable: %v", err)
		}
		for k := range uv {
			if want := float64(k+1) - (lr+0.375)*2; !(math.Abs(uv[k]-want) <= 1e-12*(math.Abs(want)+4)) {
				return failf("a second optimizer with learning rate %v (the checked one has %v) moved %v to %v instead of %v", lr+0.375, lr, float64(k+1), uv[k], want)
			}
		}
		return nil
	}
	switch c.Mode {
	case 1:
		if err := opt.Update(nil); err == nil {
			return failf("Update(nil pointer) returned no error")
		}
		evid.Eval()
		evid.Class("C17.nil_pointer")
		return nil
	case 2:
		var w tensor.Tensor
		if err := opt.Update(&w); err == nil {
			return failf("Update(pointer to nil tensor) returned no error")
		}
		if w != nil {
			return failf("Update replaced a nil tensor although it returned an error")
		}
		evid.Eval()
		evid.Class("C17.nil_tensor")
		return nil
	}
	if _, _, ctx, err := prog.RunRef(c.P, nil, false); err != nil {
		return nil
	} else if ctx.MinGap < 1e-6 || ctx.MinStd < 1e-3 {
		evid.Discard("near_kink")
		return nil
	}
	lv, err := prog.RunLib(c.P)
	if err != nil {
		return failf("program rejected: %v", err)
	}
	var side tensor.Tensor
	if c.Second == 1 {
		side = lv[0].Scale(3) // a second graph over the weight, built before any back-propagation
	}
	if err := tensor.BackPropagate(lv[len(lv)-1]); err != nil {
		return failf("BackPropagate returned error: %v", err)
	}
	w := lv[0]
	old := w
	before, err := lib.Snap(w)
	if err != nil {
		return failf("weight unreadable: %v", err)
	}
	tr := c.P.Tracked()
	hasGrad := c.P.Reach(len(lv)-1, tr)[0]
	if before.HasG != hasGrad {
		return failf("weight gradient non-nil = %v, expected %v", before.HasG, hasGrad)
	}
	if f := otherStep(); f != nil {
		return f
	}
	var gradHandle, gradRoot tensor.Tensor
	if c.GradUse && hasGrad {
		gradHandle = w.Gradient()
		gradHandle.ResetGradContext(true)
		gradRoot = gradHandle.Scale(2)
	}
	err = opt.Update(&w)
	if gradRoot != nil {
		if e := tensor.BackPropagate(gradRoot); e != nil {
			return failf("BackPropagate of a graph over the gradient tensor failed: %v", e)
		}
		gg := gradHandle.Gradient()
		if gg == nil {
			return failf("Update changed the grad context of the old tensor's gradient tensor: a graph built on it before the Update no longer reaches it")
		}
		if _, ggv, e := lib.Read(gg); e != nil || len(ggv) == 0 || ggv[0] != 2 {
			return failf("gradient of the gradient tensor = %v (%v), expected 2", ggv, e)
		}
		gradHandle.ResetGradContext(false)
		evid.Class("C17.gradient_tensor_used_in_a_graph_of_its_own")
	}
	after, serr := lib.Snap(old)
	if serr != nil {
		return failf("previous weight unreadable after Update: %v", serr)
	}
	if !before.Equal(after) {
		return failf("Update changed the previous tensor object or its gradient")
	}
	if !hasGrad {
		if err == nil {
			return failf("Update on a tensor without gradient returned no error")
		}
		if w != old {
			return failf("Update replaced the tensor although it returned an error")
		}
		evid.Eval()
		evid.Class("C17.no_gradient")
		return nil
	}
	if err != nil {
		return failf("Update on a tensor with gradient failed: %v", err)
	}
	if w == nil || w == old {
		return failf("Update did not replace the tensor behind the pointer")
	}
	ns, nv, err := lib.Read(w)
	if err != nil {
		return failf("new weight unreadable: %v", err)
	}
	if !ref.EqShape(ns, before.Shape) {
		return failf("new weight has shape %v, previous %v", ns, before.Shape)
	}
	uniform := true
	for k := range nv {
		want := before.V[k] - lr*before.GV[k]
		if !lib.SameNum(nv[k], want) && !(math.Abs(nv[k]-want) <= 1e-12*math.Max(math.Abs(before.V[k]), math.Abs(lr*before.GV[k]))) {
			return failf("new weight [%d] = %v, w - lr*g = %v - %v*%v = %v", k, nv[k], before.V[k], lr, before.GV[k], want)
		}
		if before.GV[k] != before.GV[0] {
			uniform = false
		}
	}
	if c.Others != 0 {
		// the same optimizer now updates every other tensor of the graph that holds a gradient
		updated := 0
		for i := 1; i < len(lv); i++ {
			x := lv[i]
			if x.Gradient() == nil {
				continue
			}
			xb, err := lib.Snap(x)
			if err != nil {
				return failf("value %d unreadable: %v", i, err)
			}
			p := &w // the pointer variable that served the weight
			if c.Others == 1 {
				var own tensor.Tensor
				p = &own
			}
			*p = x
			if f := otherStep(); f != nil {
				return f
			}
			if err := opt.Update(p); err != nil {
				return failf("Update of value %d (shape %v, has a gradient; the optimizer updated %d other tensors before) failed: %v", i, xb.Shape, updated+1, err)
			}
			if *p == nil || *p == x {
				return failf("Update of value %d (shape %v; the optimizer updated %d other tensors before) did not replace the tensor behind the pointer", i, xb.Shape, updated+1)
			}
			xs, xv, err := lib.Read(*p)
			if err != nil {
				return failf("updated value %d unreadable: %v", i, err)
			}
			if !ref.EqShape(xs, xb.Shape) {
				return failf("Update of value %d (the optimizer updated %d other tensors before): new tensor has shape %v, previous %v", i, updated+1, xs, xb.Shape)
			}
			for k := range xv {
				want := xb.V[k] - lr*xb.GV[k]
				if !lib.SameNum(xv[k], want) && !(math.Abs(xv[k]-want) <= 1e-12*math.Max(math.Abs(xb.V[k]), math.Abs(lr*xb.GV[k]))) {
					return failf("Update of value %d (the optimizer updated %d other tensors before): [%d] = %v, w - lr*g = %v - %v*%v = %v", i, updated+1, k, xv[k], xb.V[k], lr, xb.GV[k], want)
				}
			}
			if xa, err := lib.Snap(x); err != nil || !xb.Equal(xa) {
				return failf("Update changed the previous tensor object (value %d) or its gradient", i)
			}
			updated++
		}
		if updated > 0 {
			evid.Class(fmt.Sprintf("C17.one_optimizer_several_tensors_kind=%d", c.Others))
		}
	}
	if c.Second != 0 && c.P.Leaves[0].Tracked {
		// the previous tensor object gets a different gradient and is updated again
		var add float64
		switch c.Second {
		case 1:
			if err := tensor.BackPropagate(side); err != nil {
				return failf("BackPropagate of the second graph returned error: %v", err)
			}
			add = 3
		default:
			old.ResetGradContext(true)
			if err := tensor.BackPropagate(old.Scale(2)); err != nil {
				return failf("BackPropagate after reset returned error: %v", err)
			}
		}
		g := old.Gradient()
		if g == nil {
			return failf("previous weight has no gradient after the second back-propagation")
		}
		_, g2, err := lib.Read(g)
		if err != nil {
			return failf("gradient unreadable: %v", err)
		}
		for k := range g2 {
			want := 2.0
			if c.Second == 1 {
				want = before.GV[k] + add
			}
			if !(math.Abs(g2[k]-want) <= 1e-9*math.Max(1, math.Abs(want))) {
				return failf("second gradient [%d] = %v, expected %v", k, g2[k], want)
			}
		}
		w2 := old
		if f := otherStep(); f != nil {
			return f
		}
		if err := opt.Update(&w2); err != nil {
			return failf("second Update of the same tensor object failed: %v", err)
		}
		_, n2, err := lib.Read(w2)
		if err != nil || len(n2) != len(g2) {
			return failf("result of the second Update unreadable: %v", err)
		}
		for k := range n2 {
			want := before.V[k] - lr*g2[k]
			if !lib.SameNum(n2[k], want) && !(math.Abs(n2[k]-want) <= 1e-12*math.Max(math.Abs(before.V[k]), math.Abs(lr*g2[k]))) {
				return failf("second Update of the same tensor object: [%d] = %v, w - lr*g = %v - %v*%v = %v (the gradient changed since the first Update)", k, n2[k], before.V[k], lr, g2[k], want)
			}
		}
		evid.Class(fmt.Sprintf("C17.second_update_kind=%d", c.Second))
	}
	if c.Repeat > 0 && c.Repeat <= 64 {
		// a long life of one optimizer: the same pointer variable, a new gradient every step
		// (elements of very different magnitudes in every third case); every tensor it replaced
		// is kept and must still be what it was at the end
		cur := []float64{1.5, -0.25, 3}
		mag := []float64{1, 1, 1}
		if c.Repeat%3 == 0 {
			mag = []float64{1, 1e160, 1e-160}
		}
		var u tensor.Tensor = lib.MustNew([]int{3}, cur, true)
		var olds []tensor.Tensor
		var oldSnaps []lib.Snapshot
		for it := 0; it < c.Repeat; it++ {
			k := float64(it%5) - 1.5
			gvec := []float64{k * mag[0], -k * mag[1], (k + 0.25) * mag[2]}
			u.ResetGradContext(true)
			r, err := u.Mul(lib.MustNew([]int{3}, gvec, false))
			if err != nil {
				return failf("repeat %d: Mul failed: %v", it, err)
			}
			if err := tensor.BackPropagate(r); err != nil {
				return failf("repeat %d: BackPropagate failed: %v", it, err)
			}
			prevU := u
			sn, err := lib.Snap(prevU)
			if err != nil {
				return failf("repeat %d: tensor unreadable: %v", it, err)
			}
			if err := opt.Update(&u); err != nil {
				return failf("Update number %d by one optimizer failed: %v", it+2, err)
			}
			if u == prevU {
				return failf("Update number %d by one optimizer did not replace the tensor", it+2)
			}
			olds, oldSnaps = append(olds, prevU), append(oldSnaps, sn)
			us, uv, err := lib.Read(u)
			if err != nil || len(us) != 1 || len(uv) != 3 {
				return failf("Update number %d by one optimizer: result has shape %v (%v)", it+2, us, err)
			}
			for j := range uv {
				want := cur[j] - lr*gvec[j]
				if !lib.SameNum(uv[j], want) && !(math.Abs(uv[j]-want) <= 1e-12*math.Max(math.Abs(cur[j]), math.Abs(lr*gvec[j]))) {
					return failf("Update number %d by one optimizer: [%d] = %v, w - lr*g = %v - %v*%v = %v", it+2, j, uv[j], cur[j], lr, gvec[j], want)
				}
				cur[j] = want // the reference trajectory is carried independently of the library's
			}
		}
		for i, o := range olds {
			now, err := lib.Snap(o)
			if err != nil || !oldSnaps[i].Equal(now) {
				return failf("after %d updates by one optimizer, the tensor it replaced at update %d (or that tensor's gradient) is no longer what it was (%v)", len(olds)+1, i+2, err)
			}
		}
		evid.Class("C17.nine_or_more_updates_by_one_optimizer")
	}
	evid.Eval()
	evid.Class(fmt.Sprintf("C17.rank=%d", len(ns)))
	if c.NilConf {
		evid.Class("C17.default_lr")
	} else {
		evid.Class(fmt.Sprintf("C17.lr=%g", c.LR))
	}
	if len(ns) >= 2 && !uniform && !c.NilConf && c.LR != 0 {
		evid.Class("C17.rank>=2_nonuniform_gradient")
		evid.NonTrivial(c)
	}
	return nil
}

func TestC17_sgd(t *testing.T) {
	run(t, 10000, func(rt *rapid.T) {
		c := genC17(rt)
		if f := guard(func() *Failure { return checkC17(c) }); f != nil {
			fail(rt, "C17/sgd", c, f)
		}
	})
}
