package checks

import (
	"fmt"
	"testing"

	"github.com/sahandsafizadeh/qeep/tensor"
	"pgregory.net/rapid"

	"qeepverif/evid"
	"qeepverif/prog"
	"qeepverif/ref"
)

// C04Case: one MatMul, Dot or Transpose on fresh leaves (batch shapes broadcast-compatible).
type C04Case struct {
	P prog.Program `json:"p"`
}

func init() { register("C04/linalg", checkC04) }

func genC04(t *rapid.T) C04Case {
	op := rapid.SampledFrom([]string{"matmul", "matmul", "dot", "transpose"}).Draw(t, "op")
	cfg := prog.SingleCfg{MaxRank: 6, MaxDim: 4, MaxElems: 400, Expand: true, Mags: rapid.IntRange(0, 2).Draw(t, "mags") == 0}
	return C04Case{P: prog.GenSingle(t, op, cfg)}
}

func checkC04(c C04Case) *Failure {
	if len(c.P.Nodes) != 1 {
		return failf("malformed case")
	}
	n := c.P.Nodes[0]
	want, err := refForward(c.P)
	if err != nil {
		return nil
	}
	leaves, y, err := libForward(c.P)
	if err != nil {
		return failf("%s rejected valid operands: %v", n.Op, err)
	}
	mode, scale := cmpBits, []float64(nil)
	if n.Op != "transpose" {
		mode = cmpTol
		scale = absForward(c.P).Vals()
	}
	if f := compareTensor(n.Op, y, want, mode, scale); f != nil {
		return f
	}
	a := leaves[n.In[0]]
	switch n.Op {
	case "transpose":
		tt, err := y.Transpose()
		if err != nil {
			return failf("Transpose of a transposed tensor failed: %v", err)
		}
		if f := sameTensors("Transpose(Transpose(A)) vs A", tt, a, false); f != nil {
			return f
		}
	case "matmul":
		b := leaves[n.In[1]]
		sa, sb := a.Shape(), b.Shape()
		k := sa[len(sa)-1]
		eye, err := tensor.Eye(k, nil)
		if err != nil {
			return failf("Eye(%d): %v", k, err)
		}
		ai, err := a.MatMul(eye)
		if err != nil {
			return failf("A.Eye failed for A %v: %v", sa, err)
		}
		if f := sameTensors("A.I vs A", ai, a, true); f != nil {
			return f
		}
		ib, err := eye.MatMul(b)
		if err != nil {
			return failf("Eye.B failed for B %v: %v", sb, err)
		}
		if f := sameTensors("I.B vs B", ib, b, true); f != nil {
			return f
		}
		// (A.B)^T = B^T.A^T
		yt, err := y.Transpose()
		if err != nil {
			return failf("Transpose of product failed: %v", err)
		}
		at, err := a.Transpose()
		if err != nil {
			return failf("Transpose(A): %v", err)
		}
		bt, err := b.Transpose()
		if err != nil {
			return failf("Transpose(B): %v", err)
		}
		btat, err := bt.MatMul(at)
		if err != nil {
			return failf("B^T.A^T failed for %v, %v: %v", sb, sa, err)
		}
		if f := sameTensors("(A.B)^T vs B^T.A^T", yt, btat, true); f != nil {
			return f
		}
	case "dot":
		b := leaves[n.In[1]]
		ab, err := a.Mul(b)
		if err != nil {
			return failf("a*b failed for Dot operands %v, %v: %v", a.Shape(), b.Shape(), err)
		}
		s, err := ab.SumAlong(len(ab.Shape()) - 1)
		if err != nil {
			return failf("SumAlong(last)(a*b): %v", err)
		}
		if f := sameTensors("Dot(a,b) vs SumAlong(last)(a*b)", y, s, true); f != nil {
			return f
		}
	}
	evid.Eval()
	evid.Class("C04.op=" + n.Op)
	evid.Class(fmt.Sprintf("C04.rank=%d", maxRankOf(c.P)))
	nt := false
	if len(n.In) == 2 {
		sa, sb := c.P.Leaves[n.In[0]].Shape, c.P.Leaves[n.In[1]].Shape
		keep := 1
		if n.Op == "matmul" {
			keep = 2
		}
		ba, bb := sa[:len(sa)-keep], sb[:len(sb)-keep]
		if !ref.EqShape(ba, bb) {
			evid.Class("C04.batch_expanded")
			nt = true
			if len(ba) < len(bb) {
				evid.Class("C04.first_has_fewer_batch_dims")
			} else if len(bb) < len(ba) {
				evid.Class("C04.second_has_fewer_batch_dims")
			}
		}
		if n.Op == "matmul" {
			m, k, p := sa[len(sa)-2], sa[len(sa)-1], sb[len(sb)-1]
			if m != k && k != p && m != p {
				evid.Class("C04.m_k_p_pairwise_different")
				nt = true
			}
		}
	} else if maxRankOf(c.P) >= 3 {
		nt = true
	}
	if nt {
		evid.NonTrivial(c)
	}
	return nil
}

func TestC04_linalg(t *testing.T) {
	run(t, 20000, func(rt *rapid.T) {
		c := genC04(rt)
		if f := guard(func() *Failure { return checkC04(c) }); f != nil {
			fail(rt, "C04/linalg", c, f)
		}
	})
}
