package checks

import (
	"fmt"
	"math"
	"testing"

	"github.com/sahandsafizadeh/qeep/tensor"
	"pgregory.net/rapid"

	"qeepverif/evid"
	"qeepverif/lib"
	"qeepverif/prog"
	"qeepverif/ref"
)

// C04Case: one MatMul, Dot or Transpose on fresh leaves (batch shapes broadcast-compatible).
type C04Case struct {
	P prog.Program `json:"p"`
	// Reuse (0 or 8..24): after the checked product, its second operand object serves that many
	// further products with other first operands, then the checked product is computed once
	// more and must still be the defined one
	Reuse int `json:"reuse,omitempty"`
}

func init() { register("C04/linalg", checkC04) }

func genC04(t *rapid.T) C04Case {
	op := rapid.SampledFrom([]string{"matmul", "matmul", "dot", "transpose"}).Draw(t, "op")
	cfg := prog.SingleCfg{MaxRank: 6, MaxDim: 4, MaxElems: 400, Expand: true, Mags: rapid.IntRange(0, 2).Draw(t, "mags") == 0}
	p := prog.GenSingle(t, op, cfg)
	// a third of the cases give the trailing matrices of each operand a special structure
	// (triangular, diagonal, identity, permutation, symmetric, zero, one non-zero entry): the
	// defined product does not depend on structure
	if op != "dot" && rapid.IntRange(0, 2).Draw(t, "structured") == 0 {
		for i := range p.Leaves {
			structureMatrices(t, p.Leaves[i].Shape, p.Leaves[i].Vals)
		}
	}
	if rapid.IntRange(0, 9).Draw(t, "bigwhole") == 0 {
		// whole numbers whose products and sums pass 2^63 (and 2^53): still exact sums of products
		for i := range p.Leaves {
			for k := range p.Leaves[i].Vals {
				p.Leaves[i].Vals[k] = float64(rapid.IntRange(-9, 9).Draw(t, "wholedigit")) * math.Ldexp(1, rapid.SampledFrom([]int{0, 20, 31, 32, 40, 52}).Draw(t, "wholeexp"))
			}
		}
	}
	for i := range p.Leaves {
		p.Leaves[i].Tracked = rapid.IntRange(0, 3).Draw(t, "tracked") == 0 // values do not depend on tracking
	}
	c := C04Case{P: p}
	if op != "transpose" && rapid.IntRange(0, 7).Draw(t, "reuse") == 0 {
		c.Reuse = rapid.IntRange(8, 24).Draw(t, "reusen")
	}
	return c
}

var matrixStructures = []string{"upper", "lower", "strict_upper", "diagonal", "identity", "permutation", "symmetric", "zero", "single", "dense"}

// structureMatrices rewrites every trailing matrix of a tensor in place.
func structureMatrices(t *rapid.T, shape []int, v []float64) {
	if len(shape) < 2 {
		return
	}
	r, c := shape[len(shape)-2], shape[len(shape)-1]
	for base := 0; base < len(v); base += r * c {
		m := v[base : base+r*c]
		kind := rapid.SampledFrom(matrixStructures).Draw(t, "structure")
		var perm []int
		if kind == "permutation" {
			perm = rapid.Permutation(seq(c)).Draw(t, "perm")
		}
		hot := rapid.IntRange(0, r*c-1).Draw(t, "hot")
		for i := 0; i < r; i++ {
			for j := 0; j < c; j++ {
				e := &m[i*c+j]
				switch kind {
				case "upper":
					if j < i {
						*e = 0
					}
				case "lower":
					if j > i {
						*e = 0
					}
				case "strict_upper":
					if j <= i {
						*e = 0
					}
				case "diagonal":
					if j != i {
						*e = 0
					}
				case "identity":
					*e = 0
					if j == i {
						*e = 1
					}
				case "permutation":
					*e = 0
					if perm[i%c] == j {
						*e = 1
					}
				case "symmetric":
					if j < i && j < r && i < c {
						*e = m[j*c+i]
					}
				case "zero":
					*e = 0
				case "single":
					if i*c+j != hot {
						*e = 0
					}
				}
			}
		}
	}
}


func checkC04(c C04Case) *Failure {
	if len(c.P.Nodes) != 1 {
		return failf("malformed case")
	}
	n := c.P.Nodes[0]
	want, err := refForward(c.P)
	if err != nil {
		return nil
	}
	leaves, y, err := libForward(c.P)
	if err != nil {
		return failf("%s failed on valid operands: %v", n.Op, err)
	}
	mode, scale := cmpBits, []float64(nil)
	if n.Op != "transpose" {
		mode = cmpTol
		scale = absForward(c.P).Vals()
	}
	if f := compareTensor(n.Op, y, want, mode, scale); f != nil {
		return f
	}
	a := leaves[n.In[0]]
	switch n.Op {
	case "transpose":
		tt, err := y.Transpose()
		if err != nil {
			return failf("Transpose of a transposed tensor failed: %v", err)
		}
		if f := sameTensors("Transpose(Transpose(A)) vs A", tt, a, false); f != nil {
			return f
		}
	case "matmul":
		b := leaves[n.In[1]]
		sa, sb := a.Shape(), b.Shape()
		k := sa[len(sa)-1]
		eye, err := tensor.Eye(k, nil)
		if err != nil {
			return failf("Eye(%d): %v", k, err)
		}
		ai, err := a.MatMul(eye)
		if err != nil {
			return failf("A.Eye failed for A %v: %v", sa, err)
		}
		if f := sameTensors("A.I vs A", ai, a, true); f != nil {
			return f
		}
		ib, err := eye.MatMul(b)
		if err != nil {
			return failf("Eye.B failed for B %v: %v", sb, err)
		}
		if f := sameTensors("I.B vs B", ib, b, true); f != nil {
			return f
		}
		// (A.B)^T = B^T.A^T
		yt, err := y.Transpose()
		if err != nil {
			return failf("Transpose of product failed: %v", err)
		}
		at, err := a.Transpose()
		if err != nil {
			return failf("Transpose(A): %v", err)
		}
		bt, err := b.Transpose()
		if err != nil {
			return failf("Transpose(B): %v", err)
		}
		btat, err := bt.MatMul(at)
		if err != nil {
			return failf("B^T.A^T failed for %v, %v: %v", sb, sa, err)
		}
		// B^T.A^T adds the same products (possibly in another order): compared through its
		// transpose with the defined product, to within the rounding of the sums of magnitudes
		back, err := btat.Transpose()
		if err != nil {
			return failf("Transpose of B^T.A^T failed: %v", err)
		}
		if f := compareTensor("(B^T.A^T)^T vs the defined A.B", back, want, cmpTol, scale); f != nil {
			return f
		}
		if ys, bs := yt.Shape(), btat.Shape(); !ref.EqShape(ys, bs) {
			return failf("(A.B)^T has shape %v, B^T.A^T %v", ys, bs)
		}
	case "dot":
		b := leaves[n.In[1]]
		ab, err := a.Mul(b)
		if err != nil {
			return failf("a*b failed for Dot operands %v, %v: %v", a.Shape(), b.Shape(), err)
		}
		s, err := ab.SumAlong(len(ab.Shape()) - 1)
		if err != nil {
			return failf("SumAlong(last)(a*b): %v", err)
		}
		// (both are sums of the same products, possibly in another order: they agree to within
		// the rounding of the sum of the magnitudes of the terms)
		if f := compareTensor("SumAlong(last)(a*b) vs the defined Dot(a,b)", s, want, cmpTol, scale); f != nil {
			return f
		}
	}
	if c.Reuse > 0 && c.Reuse <= 64 && len(n.In) == 2 {
		b := leaves[n.In[1]]
		sb := b.Shape()
		for r := 0; r < c.Reuse; r++ {
			var js []int
			if n.Op == "matmul" {
				js = []int{1 + r%3, sb[len(sb)-2]}
			} else {
				js = []int{sb[len(sb)-1]}
			}
			jv := make([]float64, ref.Prod(js))
			for i := range jv {
				jv[i] = float64((i+r)%5) - 1.75
			}
			j := lib.MustNew(js, jv, false)
			var err error
			if n.Op == "matmul" {
				_, err = j.MatMul(b)
			} else {
				_, err = j.Dot(b)
			}
			if err != nil {
				return failf("%s of a %v tensor with the second operand %v failed: %v", n.Op, js, sb, err)
			}
		}
		y2, err := prog.ApplyLib(n, []tensor.Tensor{leaves[n.In[0]], b}, nil)
		if err != nil {
			return failf("%s failed after its second operand served %d other products: %v", n.Op, c.Reuse, err)
		}
		if f := compareTensor(fmt.Sprintf("%s after its second operand object served %d other products", n.Op, c.Reuse), y2, want, mode, scale); f != nil {
			return f
		}
		evid.Class("C04.second_operand_served_9_or_more_products")
	}
	evid.Eval()
	evid.Class("C04.op=" + n.Op)
	if n.Op == "matmul" {
		if k := matrixKind(c.P.Leaves[n.In[0]]); k != "" {
			evid.Class("C04.first_operand_" + k)
		}
	}
	evid.Class(fmt.Sprintf("C04.rank=%d", maxRankOf(c.P)))
	nt := false
	if len(n.In) == 2 {
		sa, sb := c.P.Leaves[n.In[0]].Shape, c.P.Leaves[n.In[1]].Shape
		keep := 1
		if n.Op == "matmul" {
			keep = 2
		}
		ba, bb := sa[:len(sa)-keep], sb[:len(sb)-keep]
		if !ref.EqShape(ba, bb) {
			evid.Class("C04.batch_expanded")
			nt = true
			if len(ba) < len(bb) {
				evid.Class("C04.first_has_fewer_batch_dims")
			} else if len(bb) < len(ba) {
				evid.Class("C04.second_has_fewer_batch_dims")
			}
		}
		if n.Op == "matmul" {
			m, k, p := sa[len(sa)-2], sa[len(sa)-1], sb[len(sb)-1]
			if m != k && k != p && m != p {
				evid.Class("C04.m_k_p_pairwise_different")
				nt = true
			}
		}
	} else if maxRankOf(c.P) >= 3 {
		nt = true
	}
	if nt {
		evid.NonTrivial(c)
	}
	return nil
}

// matrixKind classifies the first trailing matrix of a leaf (evidence only).
func matrixKind(l prog.Leaf) string {
	if len(l.Shape) < 2 {
		return ""
	}
	r, c := l.Shape[len(l.Shape)-2], l.Shape[len(l.Shape)-1]
	if r < 2 || c < 2 {
		return ""
	}
	below, above, off := false, false, false
	for i := 0; i < r; i++ {
		for j := 0; j < c; j++ {
			if l.Vals[i*c+j] != 0 {
				if j < i {
					below = true
				}
				if j > i {
					above = true
				}
				if j != i {
					off = true
				}
			}
		}
	}
	switch {
	case !off:
		return "diagonal_or_zero"
	case !below:
		return "upper_triangular"
	case !above:
		return "lower_triangular"
	}
	return ""
}

func TestC04_linalg(t *testing.T) {
	run(t, 20000, func(rt *rapid.T) {
		c := genC04(rt)
		if f := guard(func() *Failure { return checkC04(c) }); f != nil {
			fail(rt, "C04/linalg", c, f)
		}
	})
}
