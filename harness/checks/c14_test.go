package checks

import (
	"fmt"
	"math"
	"testing"

	"github.com/sahandsafizadeh/qeep/component/layers/activations"
	"github.com/sahandsafizadeh/qeep/tensor"
	"pgregory.net/rapid"

	"qeepverif/evid"
	"qeepverif/lib"
	"qeepverif/prog"
	"qeepverif/ref"
)

// ActCase: an activation applied to the last value of the upstream program Up (a leaf when
// Up has no nodes). G is the upstream weighting for the gradient check (C15).
type ActCase struct {
	Kind    string       `json:"kind"` // relu | leaky | sigmoid | tanh | softmax
	NilConf bool         `json:"nil_conf,omitempty"`
	M       float64      `json:"m,omitempty"`   // LeakyRelu slope
	Dim     int          `json:"dim,omitempty"` // Softmax dimension
	Up      prog.Program `json:"up"`
	G       []float64    `json:"g,omitempty"`
	Fan     int          `json:"fan,omitempty"` // consumers of the activation output (weightedRoot)
	// Other: a second activation object of the same kind with a different configuration is
	// constructed before (1) or after (2) the checked one and evaluates every input right
	// before the checked object does; what the checked object returns must not depend on it
	Other int `json:"other,omitempty"`
	// FirstRank: before anything else the object evaluates an input of another rank: 1 = the
	// trailing dim()+1 dimensions of the input's shape (so that the configured dimension is its
	// last), 2 = the input's shape with a leading dimension of 2 added
	FirstRank int `json:"first_rank,omitempty"`
	// ResetLeaves (C15): every tracked leaf is reset to a fresh tracked leaf after the forward
	// pass, right before BackPropagate
	ResetLeaves bool `json:"reset_leaves,omitempty"`
	// Multi (C15, leaf inputs only; 0 or 8..40): that many further graphs act(x)*G are built over
	// the same input leaf before the first back-propagation and back-propagated in turn; only
	// then is the gradient read: (Multi+1) times the single one
	Multi int `json:"multi,omitempty"`
	// Zero: the activation object is the zero value of its struct type (var l activations.Relu,
	// &activations.Softmax{}, ...) where that denotes the same configuration (Relu, Sigmoid,
	// Tanh always; Softmax for dimension 0; LeakyRelu for slope 0)
	Zero bool `json:"zero,omitempty"`
}

// firstOtherRank makes the activation object evaluate an input of another rank (C14 / C15).
func (c ActCase) firstOtherRank(fw func(x tensor.Tensor) (tensor.Tensor, error), shape []int) *Failure {
	var s []int
	switch c.FirstRank {
	case 3:
		// a long life before the checked call: inputs of a dozen different shapes, the checked
		// input's own shape among the first of them
		shapes := [][]int{{1}, shape, {2}, {3}, {1, 2}, {2, 2}, {1, 4}, {3, 1}, {2, 1, 2}, {1, 1, 3}, {4}, {2, 3}, {1, 1, 1, 2}}
		for k, sh := range shapes {
			v := make([]float64, ref.Prod(sh))
			for i := range v {
				v[i] = 0.25*float64((i+k)%9) - 1
			}
			y, err := fw(lib.MustNew(sh, v, false))
			if err != nil {
				if c.Kind == "softmax" && len(sh) <= c.dim() {
					continue // this Softmax does not take inputs of that rank
				}
				return failf("%s.Forward (dim %d) rejected an input of shape %v (input %d of a series on one object): %v", c.Kind, c.dim(), sh, k+1, err)
			}
			if ys := y.Shape(); !ref.EqShape(ys, sh) {
				return failf("%s.Forward (dim %d) returned shape %v for an input of shape %v", c.Kind, c.dim(), ys, sh)
			}
		}
		evid.Class("C14_15.object_first_serves_a_dozen_shapes")
		return nil
	case 1:
		k := c.dim() + 1
		if c.Kind != "softmax" {
			k = 1
		}
		if k >= len(shape) {
			return nil
		}
		s = ref.Cp(shape[len(shape)-k:])
	case 2:
		if len(shape) >= 6 {
			return nil
		}
		s = append([]int{2}, shape...)
	default:
		return nil
	}
	v := make([]float64, ref.Prod(s))
	for i := range v {
		v[i] = 0.25*float64(i%9) - 1
	}
	y, err := fw(lib.MustNew(s, v, false))
	if err != nil {
		return failf("%s.Forward (dim %d) rejected an input of shape %v: %v", c.Kind, c.dim(), s, err)
	}
	if ys := y.Shape(); !ref.EqShape(ys, s) {
		return failf("%s.Forward (dim %d) returned shape %v for an input of shape %v", c.Kind, c.dim(), ys, s)
	}
	evid.Class("C14_15.object_first_serves_another_rank")
	return nil
}

func init() {
	register("C14/act_value", checkC14)
	register("C15/act_grad", checkC15)
}

func (c ActCase) slope() float64 {
	if c.NilConf {
		return 0.01
	}
	return c.M
}
func (c ActCase) dim() int {
	if c.NilConf {
		return 0
	}
	return c.Dim
}

// layer constructs one activation object and returns its Forward; callers keep using the
// same object for every round of a case.
func (c ActCase) layer() (func(x tensor.Tensor) (tensor.Tensor, error), error) {
	var other func(x tensor.Tensor) (tensor.Tensor, error)
	if c.Other == 1 {
		other = c.otherLayer()
	}
	main, err := c.layer1()
	if err != nil {
		return nil, err
	}
	if c.Other == 2 {
		other = c.otherLayer()
	}
	if other == nil {
		return main, nil
	}
	return func(x tensor.Tensor) (tensor.Tensor, error) {
		_, _ = other(x) // may reject the input (another Softmax dimension): irrelevant here
		return main(x)
	}, nil
}

// spreadCall calls a variadic Forward with a caller-owned slice spread into it (half of the
// calls, by the input's element count) and verifies that the call left the slice alone.
func spreadCall(fw func(...tensor.Tensor) (tensor.Tensor, error)) func(x tensor.Tensor) (tensor.Tensor, error) {
	return func(x tensor.Tensor) (tensor.Tensor, error) {
		if x == nil || x.NElems()%2 == 0 {
			return fw(x)
		}
		xs := []tensor.Tensor{x}
		y, err := fw(xs...)
		if len(xs) != 1 || xs[0] != x {
			return nil, fmt.Errorf("Forward(inputs...) changed the caller's input slice")
		}
		return y, err
	}
}

// otherLayer constructs an activation of the same kind with another configuration.
func (c ActCase) otherLayer() func(x tensor.Tensor) (tensor.Tensor, error) {
	o := c
	o.Other = 0
	o.NilConf = false
	o.M = c.slope() + 0.5
	o.Dim = 1
	if c.dim() != 0 {
		o.Dim = 0
	}
	f, err := o.layer1()
	if err != nil {
		return func(x tensor.Tensor) (tensor.Tensor, error) { return nil, err }
	}
	return f
}

func (c ActCase) layer1() (func(x tensor.Tensor) (tensor.Tensor, error), error) {
	if c.Zero {
		switch {
		case c.Kind == "relu":
			var l activations.Relu
			return spreadCall(l.Forward), nil
		case c.Kind == "sigmoid":
			l := &activations.Sigmoid{}
			return spreadCall(l.Forward), nil
		case c.Kind == "tanh":
			l := new(activations.Tanh)
			return spreadCall(l.Forward), nil
		case c.Kind == "softmax" && c.dim() == 0:
			l := &activations.Softmax{}
			return spreadCall(l.Forward), nil
		case c.Kind == "leaky" && c.slope() == 0:
			var l activations.LeakyRelu
			return spreadCall(l.Forward), nil
		}
	}
	switch c.Kind {
	case "relu":
		l := activations.NewRelu()
		return spreadCall(l.Forward), nil
	case "leaky":
		var conf *activations.LeakyReluConfig
		if !c.NilConf {
			conf = &activations.LeakyReluConfig{M: c.M}
		}
		l := activations.NewLeakyRelu(conf)
		if conf != nil {
			conf.M = 77 // the caller reuses its config struct: the layer is configured already
		}
		return spreadCall(l.Forward), nil
	case "sigmoid":
		l := activations.NewSigmoid()
		return spreadCall(l.Forward), nil
	case "tanh":
		l := activations.NewTanh()
		return spreadCall(l.Forward), nil
	}
	var conf *activations.SoftmaxConfig
	if !c.NilConf {
		conf = &activations.SoftmaxConfig{Dim: c.Dim}
	}
	sm, err := activations.NewSoftmax(conf)
	if err != nil {
		return nil, err
	}
	if conf != nil {
		conf.Dim = 9 // the caller reuses its config struct: the layer is configured already
	}
	return spreadCall(sm.Forward), nil
}

func (c ActCase) forward(x tensor.Tensor) (tensor.Tensor, error) {
	f, err := c.layer()
	if err != nil {
		return nil, err
	}
	return f(x)
}

// maxActElems bounds activation inputs: 600 (up to 2400 in the large-shape regime) for the
// forward check, 200 for the gradient check (set by the generators).
var maxActElems = 200

var actKinds = []string{"relu", "leaky", "sigmoid", "tanh", "softmax", "softmax"}

func drawActValues(t *rapid.T, n int, softmax bool) []float64 {
	v := make([]float64, n)
	for i := range v {
		switch rapid.IntRange(0, 5).Draw(t, "vkind") {
		case 0:
			v[i] = rapid.SampledFrom([]float64{0, math.Copysign(0, -1), 700, -700, 1e-300, -1e-300, 5e-324, 350, -350, 36.7, -745}).Draw(t, "special")
			if softmax && math.Abs(v[i]) > 700 {
				v[i] = -700
			}
		case 1:
			v[i] = float64(rapid.IntRange(-700, 700).Draw(t, "big"))
		default:
			v[i] = float64(rapid.IntRange(-40, 40).Draw(t, "v"))/8 + 0.0137*float64(i%61+1)
		}
		if !softmax && rapid.IntRange(0, 30).Draw(t, "huge") == 0 {
			v[i] = rapid.SampledFrom([]float64{1e6, -1e6, 1e300, -1e300, 1e308, -1e308, math.MaxFloat64}).Draw(t, "hugev")
		}
	}
	return v
}

func genActShape(t *rapid.T, c *ActCase) []int {
	minRank := 0
	if c.Kind == "softmax" {
		minRank = 1
	}
	s := prog.DrawShapeN(t, minRank, 5, 4, maxActElems, rapid.Bool().Draw(t, "distinctdims"))
	c.NilConf = rapid.IntRange(0, 4).Draw(t, "nilconf") == 0
	if rapid.IntRange(0, 2).Draw(t, "otherobject") == 0 {
		c.Other = rapid.IntRange(1, 2).Draw(t, "otherwhen")
	}
	c.Zero = rapid.IntRange(0, 5).Draw(t, "zerovalue") == 0
	if rapid.IntRange(0, 2).Draw(t, "firstrank") == 0 {
		c.FirstRank = rapid.IntRange(1, 3).Draw(t, "firstrankkind")
	}
	if c.Kind == "leaky" {
		c.M = rapid.SampledFrom([]float64{0.01, 0.2, 0, 1, -0.5, 3, 1e-6, 2, 1e9, 1e17, -1e17}).Draw(t, "m")
	}
	if c.Kind == "softmax" && !c.NilConf {
		c.Dim = rapid.IntRange(0, len(s)-1).Draw(t, "dim")
	}
	return s
}

func genC14(t *rapid.T) ActCase {
	maxActElems = 600
	defer func() { maxActElems = 200 }()
	c := ActCase{Kind: rapid.SampledFrom(actKinds).Draw(t, "kind")}
	s := genActShape(t, &c)
	v := drawActValues(t, ref.Prod(s), c.Kind == "softmax")
	c.Up = prog.Program{Leaves: []prog.Leaf{{Shape: s, Vals: v, Tracked: rapid.Bool().Draw(t, "tracked")}}}
	return c
}

func checkC14(c ActCase) *Failure {
	if len(c.Up.Leaves) != 1 || len(c.Up.Nodes) != 0 {
		return failf("malformed case")
	}
	l := c.Up.Leaves[0]
	if len(l.Vals) != ref.Prod(l.Shape) || !ref.ValidDims(l.Shape) {
		return nil
	}
	if c.Kind == "softmax" {
		if c.dim() < 0 || c.dim() >= len(l.Shape) {
			return nil
		}
		for _, v := range l.Vals {
			if math.Abs(v) > 700 {
				return nil
			}
		}
	}
	x := lib.MustNew(l.Shape, l.Vals, l.Tracked)
	fw, err := c.layer()
	if err != nil {
		return failf("constructor of %s rejected a valid configuration: %v", c.Kind, err)
	}
	if f := c.firstOtherRank(fw, l.Shape); f != nil {
		return f
	}
	// a first call on other data of the same shape, then the call under test on the same object
	warm := make([]float64, len(l.Vals))
	for i := range warm {
		warm[i] = -0.5 * l.Vals[len(warm)-1-i]
	}
	if _, err := fw(lib.MustNew(l.Shape, warm, !l.Tracked)); err != nil {
		return failf("%s.Forward rejected an input of shape %v: %v", c.Kind, l.Shape, err)
	}
	y, err := fw(x)
	if err != nil {
		return failf("%s.Forward rejected an input of shape %v: %v", c.Kind, l.Shape, err)
	}
	ys, yv, err := lib.Read(y)
	if err != nil {
		return failf("%s result unreadable: %v", c.Kind, err)
	}
	if !ref.EqShape(ys, l.Shape) {
		return failf("%s result shape %v, input shape %v (dim %d)", c.Kind, ys, l.Shape, c.dim())
	}
	m := c.slope()
	switch c.Kind {
	case "softmax":
		d := c.dim()
		os := append(ref.Cp(l.Shape[:d]), l.Shape[d+1:]...)
		idx := make([]int, len(l.Shape))
		for i := 0; i < ref.Prod(os); i++ {
			oidx := ref.Unravel(i, os)
			copy(idx, oidx[:d])
			copy(idx[d+1:], oidx[d:])
			sum, got := 0.0, 0.0
			for k := 0; k < l.Shape[d]; k++ {
				idx[d] = k
				sum += math.Exp(l.Vals[ref.Ravel(idx, l.Shape)])
			}
			for k := 0; k < l.Shape[d]; k++ {
				idx[d] = k
				p := ref.Ravel(idx, l.Shape)
				want := math.Exp(l.Vals[p]) / sum
				if !(yv[p] >= 0) || math.Abs(yv[p]-want) > 1e-12*math.Max(want, 1e-300)+1e-300 {
					return failf("softmax(dim %d) of shape %v: element %v = %v, e^x/sum e^x = %v", d, l.Shape, ref.Unravel(p, l.Shape), yv[p], want)
				}
				got += yv[p]
			}
			if math.Abs(got-1) > 1e-12 {
				return failf("softmax(dim %d) of shape %v: fibre %v sums to %v", d, l.Shape, oidx, got)
			}
		}
	default:
		for k, xv := range l.Vals {
			var want float64
			tol := 0.0
			switch c.Kind {
			case "relu":
				want = math.Max(0, xv)
			case "leaky":
				want = math.Max(0, xv) + m*math.Min(0, xv)
			case "sigmoid":
				want = 1 / (1 + math.Exp(-xv))
				// relative, with an absolute floor in the denormal range: for x near -745 the
				// exact value (2.5e-324) rounds to 0 or to the smallest denormal, both are right
				tol = 1e-12*want + 1e-300
			case "tanh":
				want = math.Tanh(xv)
				tol = 1e-12*math.Abs(want) + 1e-300
			}
			if math.IsNaN(yv[k]) || math.Abs(yv[k]-want) > tol {
				return failf("%s(%v) = %v, defined value %v (m=%v)", c.Kind, xv, yv[k], want, m)
			}
		}
	}
	evid.Eval()
	evid.Class("C14.kind=" + c.Kind)
	if c.Other > 0 {
		evid.Class("C14.second_object_with_other_configuration")
	}
	evid.Class(fmt.Sprintf("C14.rank=%d", len(l.Shape)))
	nt := len(l.Shape) >= 2
	if c.Kind == "softmax" {
		evid.Class(fmt.Sprintf("C14.softmax_dim=%d", c.dim()))
		nt = len(l.Shape) >= 2 && c.dim() > 0
		if nt {
			evid.Class("C14.softmax_dim>0")
		}
	}
	if c.NilConf && (c.Kind == "softmax" || c.Kind == "leaky") {
		evid.Class("C14.nil_config")
	}
	if nt {
		evid.NonTrivial(c)
	}
	return nil
}

func TestC14_act_value(t *testing.T) {
	run(t, 20000, func(rt *rapid.T) {
		c := genC14(rt)
		if f := guard(func() *Failure { return checkC14(c) }); f != nil {
			fail(rt, "C14/act_value", c, f)
		}
	})
}

/* ---------- C15: gradients ---------- */

func genC15(t *rapid.T) ActCase {
	c := ActCase{Kind: rapid.SampledFrom(actKinds).Draw(t, "kind")}
	s := genActShape(t, &c)
	n := ref.Prod(s)
	if rapid.IntRange(0, 2).Draw(t, "leafinput") > 0 {
		// leaf input: moderate and large magnitudes, exact zeros with probability 1/4
		v := make([]float64, n)
		zeros := rapid.Bool().Draw(t, "withzeros")
		for i := range v {
			switch {
			case zeros && rapid.IntRange(0, 3).Draw(t, "zero") == 0:
				v[i] = rapid.SampledFrom([]float64{0, 0, 0, math.Copysign(0, -1), 1e-300, -1e-300, 5e-324, -5e-324, 1e-200, -1e-200, 1e-30, -1e-30}).Draw(t, "tiny")
			case rapid.IntRange(0, 5).Draw(t, "large") == 0:
				v[i] = float64(rapid.IntRange(-700, 700).Draw(t, "big")) + 0.37
				if math.Abs(v[i]) > 700 {
					v[i] = 699.5
				}
			default:
				v[i] = float64(rapid.IntRange(-40, 40).Draw(t, "v"))/8 + 0.0137*float64(i%61+1)
			}
		}
		c.Up = prog.Program{Leaves: []prog.Leaf{{Shape: s, Vals: v, Tracked: true}}}
	} else {
		cfg := prog.DefaultCfg([]string{"scale", "mul", "add", "sub", "tanh", "sin", "pow", "cos", "mul", "scale", "exp", "flatten", "flatten", "reshape"})
		cfg.MaxElems = 200
		g := prog.NewGen(t, cfg)
		nl := rapid.IntRange(1, 3).Draw(t, "nleaves")
		var pool []int
		for l := 0; l < nl; l++ {
			pool = append(pool, g.AddLeaf(s, rapid.IntRange(0, 3).Draw(t, "tracked") > 0))
		}
		nn := rapid.IntRange(1, 6).Draw(t, "nnodes")
		for len(g.P.Nodes) < nn {
			before := len(g.Vals)
			if rapid.IntRange(0, 3).Draw(t, "diamond") == 0 {
				g.AddDiamond(pool)
			} else {
				g.AddNode(pool)
			}
			for id := before; id < len(g.Vals); id++ {
				if ref.EqShape(g.Vals[id].Shape, s) {
					pool = append(pool, id)
				}
			}
		}
		last := pool[len(pool)-1]
		if last != len(g.Vals)-1 {
			g.P.Nodes = append(g.P.Nodes, prog.Node{Op: "scale", In: []int{last}, F: 1})
		}
		c.Up = g.P
	}
	c.G = drawWeights(t, n)
	c.Fan = drawFan(t)
	c.ResetLeaves = rapid.IntRange(0, 4).Draw(t, "resetleaves") == 0
	if len(c.Up.Nodes) == 0 && rapid.IntRange(0, 5).Draw(t, "multi") == 0 {
		c.Multi = rapid.SampledFrom([]int{8, 9, 10, 15, 16, 17, 31, 32, 33, 40}).Draw(t, "multin")
	}
	return c
}

func checkC15(c ActCase) *Failure {
	nl := len(c.Up.Leaves)
	total := nl + len(c.Up.Nodes)
	if nl == 0 {
		return failf("malformed case")
	}
	tr := c.Up.Tracked()
	xid := total - 1
	reach := c.Up.Reach(xid, tr)
	if !reach[xid] {
		return nil // untracked input: nothing to check here
	}
	if !evid.MatcherOpen("C15", "bcast_avg") {
		// nothing
	}
	type refRun struct {
		y    ref.T
		slot []int
		vals []ref.T
	}
	var kinkAtZero bool
	eval := func(zeroDeriv float64, avg bool) (*refRun, bool) {
		vals, slot, ctx, err := prog.RunRef(c.Up, reach, avg)
		if err != nil {
			return nil, false
		}
		x := vals[xid]
		if c.Kind == "softmax" && (c.dim() < 0 || c.dim() >= len(x.Shape)) {
			return nil, false
		}
		if ctx.MinGap < 1e-6 {
			return nil, false
		}
		for _, e := range x.E {
			if math.IsNaN(e.V) || math.Abs(e.V) > 700 {
				return nil, false
			}
			if math.Abs(e.V) <= actTie && (c.Kind == "relu" || c.Kind == "leaky") {
				kinkAtZero = true
			} else if math.Abs(e.V) < 1e-9 && (c.Kind == "relu" || c.Kind == "leaky") && len(c.Up.Nodes) > 0 {
				return nil, false // a computed input numerically at the kink: its sign is not reliable
			}
		}
		return &refRun{y: refAct(ctx, c.Kind, x, c.slope(), c.dim(), zeroDeriv), slot: slot, vals: vals}, true
	}
	lo, ok := eval(0, false)
	if !ok {
		evid.Discard("outside_domain_or_near_kink")
		return nil
	}
	if len(c.G) != len(lo.y.E) {
		return nil
	}
	hi := lo
	if kinkAtZero {
		if len(c.Up.Nodes) > 0 {
			return nil // exact zeros are only generated for leaf inputs
		}
		zd := 1.0
		hi, _ = eval(zd, false)
		if c.Kind == "leaky" {
			lo, _ = eval(c.slope(), false)
		}
	}
	fw, err := c.layer()
	if err != nil {
		return nil
	}
	if f := c.firstOtherRank(fw, lo.vals[xid].Shape); f != nil {
		return f
	}
	// warm-up round on the same object: forward and back-propagate other data of this shape
	{
		wl, err := prog.RunLib(c.Up)
		if err != nil {
			return failf("upstream program rejected: %v", err)
		}
		wy, err := fw(wl[xid])
		if err != nil {
			return failf("%s.Forward rejected an input of shape %v: %v", c.Kind, lo.vals[xid].Shape, err)
		}
		if err := tensor.BackPropagate(wy); err != nil {
			return failf("BackPropagate through %s returned error: %v", c.Kind, err)
		}
		// zero-grad, as a loop does: every tensor of the warm-up round that holds a gradient
		// becomes a fresh leaf again right before the tensors of the real round are created
		for _, x := range wl {
			if x.Gradient() != nil {
				x.ResetGradContext(true)
			}
		}
	}
	lv, err := prog.RunLib(c.Up)
	if err != nil {
		return failf("upstream program rejected: %v", err)
	}
	y, err := fw(lv[xid])
	if err != nil {
		return failf("%s.Forward rejected an input of shape %v: %v", c.Kind, lo.vals[xid].Shape, err)
	}
	z, err := weightedRoot(y, lo.y.Shape, c.G, c.Fan)
	if err != nil {
		return failf("weighting the activation output failed: %v", err)
	}
	if c.ResetLeaves {
		for i, l := range c.Up.Leaves {
			if l.Tracked {
				lv[i].ResetGradContext(true) // "zero the gradients, then backward"
			}
		}
		evid.Class("C15.leaves_reset_between_forward_and_backward")
	}
	geff := c.G
	var moreRoots []tensor.Tensor
	if len(c.Up.Nodes) == 0 && c.Multi > 0 && c.Multi <= 64 {
		for k := 0; k < c.Multi; k++ {
			yk, err := fw(lv[xid])
			if err != nil {
				return failf("%s.Forward number %d on the same input failed: %v", c.Kind, k+2, err)
			}
			zk, err := yk.Mul(lib.MustNew(lo.y.Shape, c.G, false))
			if err != nil {
				return failf("weighting the activation output failed: %v", err)
			}
			moreRoots = append(moreRoots, zk)
		}
		geff = make([]float64, len(c.G))
		for k := range geff {
			geff[k] = float64(c.Multi+1) * c.G[k]
		}
		evid.Class("C15.nine_or_more_graphs_over_one_input_leaf")
	}
	if err := tensor.BackPropagate(z); err != nil {
		return failf("BackPropagate through %s returned error: %v", c.Kind, err)
	}
	if reach[xid] {
		if f := rootGradientIsOnes(z); f != nil {
			return failf("%s (root topology %d): %s", c.Kind, c.Fan, f.Msg)
		}
	}
	for k, zk := range moreRoots {
		if err := tensor.BackPropagate(zk); err != nil {
			return failf("BackPropagate of graph %d over the same input leaf returned error: %v", k+2, err)
		}
	}
	var avg *refRun
	for i := 0; i < total; i++ {
		g := lv[i].Gradient()
		if !reach[i] {
			if g != nil {
				return failf("value %d is not on a tracked path but received a gradient", i)
			}
			continue
		}
		if g == nil {
			return failf("value %d (tracked, on a path to the activation) received no gradient", i)
		}
		gs, gv, err := lib.Read(g)
		if err != nil {
			return failf("gradient of value %d unreadable: %v", i, err)
		}
		if !ref.EqShape(gs, lo.vals[i].Shape) {
			return failf("%s: gradient of value %d has shape %v, tensor shape %v", c.Kind, i, gs, lo.vals[i].Shape)
		}
		n := len(lo.vals[i].E)
		wlo, slo := prog.Adjoint(lo.y, geff, lo.slot[i], n)
		whi, shi := prog.Adjoint(hi.y, geff, hi.slot[i], n)
		bad := -1
		for k := range gv {
			if math.IsNaN(gv[k]) || math.IsInf(gv[k], 0) {
				return failf("%s: gradient of value %d [%d] = %v is not finite (input %v)", c.Kind, i, k, gv[k], lo.vals[i].E[k].V)
			}
			a, b := math.Min(wlo[k], whi[k]), math.Max(wlo[k], whi[k])
			sc := math.Max(slo[k], shi[k])
			if a == b {
				if !closeTo(gv[k], a, sc) {
					bad = k
					break
				}
			} else if gv[k] < a-1e-9*sc-1e-10 || gv[k] > b+1e-9*sc+1e-10 {
				bad = k
				break
			}
		}
		if bad < 0 {
			continue
		}
		if c.Kind == "softmax" && evid.MatcherOpen("C15", "bcast_avg") && !kinkAtZero {
			if avg == nil {
				avg, _ = eval(0, true)
			}
			if avg != nil {
				wa, sa := prog.Adjoint(avg.y, geff, avg.slot[i], n)
				match := true
				for k := range gv {
					if !closeTo(gv[k], wa[k], sa[k]) {
						match = false
						break
					}
				}
				if match {
					evid.Known("D2-C15", map[string]any{"case": c, "value": i, "got": gv, "derivative": wlo})
					continue
				}
			}
		}
		return failf("%s (dim %d, m %v): gradient of value %d [%d] = %v, activation derivative times upstream = %v (input %v, upstream %v)", c.Kind, c.dim(), c.slope(), i, bad, gv[bad], wlo[bad], lo.vals[i].E[bad].V, c.G[bad%len(c.G)])
	}
	evid.Eval()
	evid.Class("C15.kind=" + c.Kind)
	if c.Other > 0 {
		evid.Class("C15.second_object_with_other_configuration")
	}
	nt := false
	if len(c.Up.Nodes) > 0 {
		evid.Class("C15.input_is_interior_node")
		nt = true
	}
	if kinkAtZero {
		evid.Class("C15.exact_zero_at_kink")
		nt = true
	}
	for _, e := range lo.vals[xid].E {
		if e.V == 0 {
			evid.Class("C15.exact_zero_input")
			nt = true
			break
		}
	}
	if c.Kind == "softmax" {
		evid.Class(fmt.Sprintf("C15.softmax_dim=%d", c.dim()))
		if lo.vals[xid].Shape[c.dim()] == 1 {
			evid.Class("C15.softmax_fibre_length_1")
		}
	}
	if nt {
		evid.NonTrivial(c)
	}
	return nil
}

func TestC15_act_grad(t *testing.T) {
	run(t, 10000, func(rt *rapid.T) {
		c := genC15(rt)
		if f := guard(func() *Failure { return checkC15(c) }); f != nil {
			fail(rt, "C15/act_grad", c, f)
		}
	})
}
