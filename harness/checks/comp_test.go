package checks

import (
	"math"

	"qeepverif/ref"
)

// Reference definitions of the components in dual numbers, written from the statements of
// C12..C16 (not from the code).

const lossEps = 1e-12

// actTie is the library's absolute equality tolerance (Eq): inputs this close to 0 count as
// "at 0" for Relu / LeakyRelu gradients.
const actTie = 1e-240

// clipD clips a dual to [lo, hi]; a clipped value is a constant (zero tangent). The distance
// of v to the nearer bound is recorded as a kink gap.
func clipD(c *ref.Ctx, d ref.D, lo, hi float64, gap *float64) ref.D {
	if g := math.Min(math.Abs(d.V-lo), math.Abs(d.V-hi)); g < *gap {
		*gap = g
	}
	if d.V < lo {
		return ref.C(lo)
	}
	if d.V > hi {
		return ref.C(hi)
	}
	return d
}

// refLoss computes the loss value (as a dual) of kind mse|bce|ce for predictions p and
// targets t (shapes [N] for mse/bce, [B,C] for ce). gap receives the smallest distance of a
// prediction to a clipping bound (targets' gaps are not relevant: they carry no tangent here).
func refLoss(c *ref.Ctx, kind string, p, t ref.T) (ref.D, float64) {
	gap := math.Inf(1)
	dummy := math.Inf(1)
	n := float64(len(p.E))
	sum := ref.C(0)
	switch kind {
	case "mse":
		for i := range p.E {
			d := c.Sub(t.E[i], p.E[i])
			sum = c.Add(sum, c.Mul(d, d))
		}
		return c.Scale(sum, 1/n), gap
	case "bce":
		for i := range p.E {
			tc := clipD(c, t.E[i], 0, 1, &dummy)
			pc := clipD(c, p.E[i], lossEps, 1-lossEps, &gap)
			a := c.Mul(tc, c.Log(pc))
			b := c.Mul(c.Sub(ref.C(1), tc), c.Log(c.Sub(ref.C(1), pc)))
			sum = c.Add(sum, c.Add(a, b))
		}
		return c.Scale(sum, -1/n), gap
	case "ce":
		for i := range p.E {
			tc := clipD(c, t.E[i], 0, 1, &dummy)
			pc := clipD(c, p.E[i], lossEps, 1-lossEps, &gap)
			sum = c.Add(sum, c.Mul(tc, c.Log(pc)))
		}
		return c.Scale(sum, -1/float64(p.Shape[0])), gap
	}
	panic("refLoss: " + kind)
}

// refAct applies an activation element-wise (relu leaky sigmoid tanh) or Softmax along dim.
// zeroDeriv is the derivative taken at exactly 0 by relu/leaky (any value in the closed
// interval between the one-sided derivatives is acceptable; callers evaluate both ends).
// bcastAvg emulates known finding D2 for Softmax (the expansion of the normaliser).
func refAct(c *ref.Ctx, kind string, x ref.T, m float64, dim int, zeroDeriv float64) ref.T {
	switch kind {
	case "relu", "leaky":
		neg := 0.0
		if kind == "leaky" {
			neg = m
		}
		return c.Map(x, func(d ref.D) ref.D {
			switch {
			case d.V > actTie:
				return d
			case d.V < -actTie:
				return c.Scale(d, neg)
			}
			// at 0 - and within the library's absolute equality tolerance of it, where the
			// library's own notion of "equal to 0" applies - any derivative between the
			// one-sided ones is acceptable; the caller evaluates both ends
			r := c.Scale(d, zeroDeriv)
			r.V = math.Max(0, d.V) + neg*math.Min(0, d.V)
			return r
		})
	case "sigmoid":
		return c.Map(x, func(d ref.D) ref.D {
			return c.Div(ref.C(1), c.Add(ref.C(1), c.Exp(c.Scale(d, -1))))
		})
	case "tanh":
		return c.Map(x, c.Tanh)
	case "softmax":
		e := c.Map(x, c.Exp)
		s, err := c.ReduceAlong("sum", e, dim)
		if err != nil {
			panic(err)
		}
		s, _ = c.UnSqueeze(s, dim)
		// the normaliser is expanded along dim: Broadcast applies the D2 emulation if enabled
		sb, err := c.Broadcast(s, x.Shape)
		if err != nil {
			panic(err)
		}
		o, _ := c.Binary("div", e, sb)
		return o
	}
	panic("refAct: " + kind)
}

// refFC computes y[b][o] = W[o]*sum_d x[b][d] + B[o]. With c.BcastAvg the tangents of W and B
// are scaled by 1/batch, which is what averaging over the batch expansion produces (D2).
func refFC(c *ref.Ctx, x, w, b ref.T) ref.T {
	batch, feat, outs := x.Shape[0], x.Shape[1], w.Shape[0]
	k := 1.0
	if c != nil && c.BcastAvg {
		k = 1 / float64(batch)
	}
	y := ref.T{Shape: []int{batch, outs}, E: make([]ref.D, batch*outs)}
	for bi := 0; bi < batch; bi++ {
		s := ref.C(0)
		for d := 0; d < feat; d++ {
			s = c.Add(s, x.E[bi*feat+d])
		}
		for o := 0; o < outs; o++ {
			wo, bo := w.E[o], b.E[o]
			if k != 1 {
				wo, bo = ref.ScaleTangent(wo, k), ref.ScaleTangent(bo, k)
			}
			y.E[bi*outs+o] = c.Add(c.Mul(wo, s), bo)
		}
	}
	return y
}

// tangentOf extracts the gradient of a scalar dual w.r.t. a seeded block.
func tangentOf(d ref.D, slot, n int) (g, scale []float64) {
	g = make([]float64, n)
	scale = make([]float64, n)
	if d.T == nil {
		return
	}
	copy(g, d.T[slot:slot+n])
	copy(scale, d.A[slot:slot+n])
	return
}
