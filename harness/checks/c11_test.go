package checks

import (
	"fmt"
	"math"
	"os"
	"testing"

	"github.com/sahandsafizadeh/qeep/component/layers"
	"github.com/sahandsafizadeh/qeep/component/optimizers"
	"github.com/sahandsafizadeh/qeep/tensor"
	"pgregory.net/rapid"

	"qeepverif/evid"
	"qeepverif/lib"
	"qeepverif/prog"
	"qeepverif/ref"
)

type TrainStep struct {
	Batch     int       `json:"batch"`
	X         []float64 `json:"x"`
	T         []float64 `json:"t"`
	SkipReset bool      `json:"skip_reset,omitempty"`
	// Again (1 + index of an earlier step, 0 = none): this step feeds the very input and target
	// tensor objects of that step again (a later epoch over the same mini-batches)
	Again int `json:"again,omitempty"`
	// Partial (with SkipReset): only one parameter's reset is omitted: 1 = the weight's, 2 = the
	// bias's; the other parameter is reset as usual
	Partial int `json:"partial,omitempty"`
	// SitOut: one parameter is not updated in this step (1 = weight, 2 = bias; a warm-up or
	// alternating schedule); it is reset like the other one and must start the next step without
	// anything left from this one
	SitOut int `json:"sit_out,omitempty"`
}

// C11Case: a model FC(F -> O) -> activation -> (Reshape to [B*O] for mse/bce) -> loss, trained
// by SGD for a few steps on fresh mini-batches.
type C11Case struct {
	F       int         `json:"f"`
	O       int         `json:"o"`
	Act     ActCase     `json:"act"` // Kind, NilConf, M, Dim are used
	Loss    string      `json:"loss"`
	NilConf bool        `json:"nil_conf,omitempty"`
	LR      float64     `json:"lr,omitempty"`
	W0      []float64   `json:"w0"`
	B0      []float64   `json:"b0"`
	Steps   []TrainStep `json:"steps"`
}

func init() { register("C11/training", checkC11) }

func genC11(t *rapid.T) C11Case {
	c := C11Case{F: rapid.IntRange(1, 4).Draw(t, "f"), O: rapid.IntRange(1, 4).Draw(t, "o")}
	c.Act.Kind = rapid.SampledFrom([]string{"relu", "leaky", "sigmoid", "tanh", "softmax", "sigmoid"}).Draw(t, "act")
	c.Act.NilConf = rapid.IntRange(0, 3).Draw(t, "actnil") == 0
	c.Act.M = rapid.SampledFrom([]float64{0.01, 0.2, 0.5, 0, 1, 2, -0.5}).Draw(t, "m") // any slope is valid, also 0, 1, above 1, negative
	c.Act.Dim = rapid.IntRange(0, 1).Draw(t, "dim")
	c.Loss = rapid.SampledFrom([]string{"mse", "bce", "ce"}).Draw(t, "loss")
	c.NilConf = rapid.IntRange(0, 4).Draw(t, "lrnil") == 0
	c.LR = rapid.SampledFrom([]float64{1e-3, 0.01, 0.1, 0.5, 0.25, 0, -0.1}).Draw(t, "lr")
	c.W0 = prog.DrawValsMode(t, c.O, 0, "small")
	c.B0 = prog.DrawValsMode(t, c.O, 1, "small")
	if rapid.IntRange(0, 7).Draw(t, "saturated") == 0 {
		// units deep in the saturated range of Sigmoid / Tanh / Softmax, yet inside the losses'
		// clipping interval (|z| up to 27): outputs of 1e-12..1e-8
		for i := range c.B0 {
			c.B0[i] = float64(rapid.IntRange(-27, 27).Draw(t, "bsat"))
		}
	}
	ns := rapid.IntRange(1, 6).Draw(t, "steps")
	if rapid.IntRange(0, 9).Draw(t, "longrun") == 0 {
		// a long run of one model, one optimizer, one loss object (small steps: it stays bounded)
		ns = rapid.IntRange(12, 40).Draw(t, "stepslong")
		if !c.NilConf && math.Abs(c.LR) > 0.1 {
			c.LR = 0.05
		}
	}
	skipAt := -1
	if rapid.IntRange(0, 3).Draw(t, "omitreset") == 0 {
		skipAt = rapid.IntRange(0, ns-1).Draw(t, "skipat")
	}
	for s := 0; s < ns; s++ {
		st := TrainStep{Batch: rapid.IntRange(1, 5).Draw(t, "batch"), SkipReset: s == skipAt}
		if st.SkipReset {
			st.Partial = rapid.IntRange(0, 2).Draw(t, "partial")
		} else if rapid.IntRange(0, 5).Draw(t, "sitout") == 0 {
			st.SitOut = rapid.IntRange(1, 2).Draw(t, "sitoutwho")
		}
		if rapid.IntRange(0, 3).Draw(t, "batch1") == 0 {
			st.Batch = 1
		}
		st.X = prog.DrawValsMode(t, st.Batch*c.F, 2+s, "small")
		st.T = make([]float64, st.Batch*c.O)
		for i := range st.T {
			st.T[i] = float64(rapid.IntRange(0, 16).Draw(t, "t")) / 16
		}
		c.Steps = append(c.Steps, st)
	}
	if ns >= 12 && rapid.Bool().Draw(t, "epochs") {
		// epochs: the first 9..12 steps are the distinct mini-batches, every later step feeds one
		// of them again, in a shuffled order
		k := rapid.IntRange(9, 12).Draw(t, "nbatches")
		for s := k; s < len(c.Steps); s++ {
			j := rapid.IntRange(0, k-1).Draw(t, "again")
			c.Steps[s].Batch, c.Steps[s].X, c.Steps[s].T, c.Steps[s].Again = c.Steps[j].Batch, c.Steps[j].X, c.Steps[j].T, j+1
		}
	}
	return c
}

func sameFloats(a, b []float64) bool {
	if len(a) != len(b) {
		return false
	}
	for i := range a {
		if a[i] != b[i] {
			return false
		}
	}
	return true
}

func checkC11(c C11Case) *Failure {
	if c.F < 1 || c.O < 1 || c.F > 8 || c.O > 8 || len(c.W0) != c.O || len(c.B0) != c.O {
		return nil
	}
	fc, err := layers.NewFC(&layers.FCConfig{Inputs: c.F, Outputs: c.O})
	if err != nil {
		return failf("NewFC: %v", err)
	}
	ws := fc.Weights()
	*ws[0].Value = lib.MustNew([]int{c.O}, c.W0, true)
	*ws[1].Value = lib.MustNew([]int{c.O}, c.B0, true)
	var conf *optimizers.SGDConfig
	lr := 0.01
	if !c.NilConf {
		conf = &optimizers.SGDConfig{LearningRate: c.LR}
		lr = c.LR
	}
	opt := optimizers.NewSGD(conf)
	if conf != nil {
		conf.LearningRate = 123 // the caller reuses its config struct: the optimizer is configured already
	}
	// one activation object and one loss object for the whole history, as in a training loop
	actForward, err := c.Act.layer()
	if err != nil {
		return nil
	}
	compute := newLoss(c.Loss)
	stale := false // a reset was omitted: the parameters are spent
	multiBatch, steps, sawStale := false, 0, false
	var xObj, tObj []tensor.Tensor
	epochs, partial, satOut := false, false, false
	for si, st := range c.Steps {
		if st.Batch < 1 || len(st.X) != st.Batch*c.F || len(st.T) != st.Batch*c.O {
			return nil
		}
		if c.Act.Kind == "softmax" && c.Act.dim() > 1 {
			return nil
		}
		wT, bT := *ws[0].Value, *ws[1].Value
		_, wV, err := lib.Read(wT)
		if err != nil {
			return failf("step %d: weight unreadable: %v", si, err)
		}
		_, bV, err := lib.Read(bT)
		if err != nil {
			return failf("step %d: bias unreadable: %v", si, err)
		}
		// one-step oracle from the statement's formulas in dual numbers
		run := func(avg bool) (ref.D, float64, bool) {
			ctx := ref.NewCtx(2 * c.O)
			ctx.BcastAvg = avg
			rw := ctx.SeedBlock(ref.FromVals([]int{c.O}, wV), 0)
			rb := ctx.SeedBlock(ref.FromVals([]int{c.O}, bV), c.O)
			rx := ref.FromVals([]int{st.Batch, c.F}, st.X)
			y := refFC(ctx, rx, rw, rb)
			for _, e := range y.E {
				if (c.Act.Kind == "relu" || c.Act.Kind == "leaky") && math.Abs(e.V) < 1e-9 {
					return ref.D{}, 0, false
				}
			}
			a := refAct(ctx, c.Act.Kind, y, c.Act.slope(), c.Act.dim(), 0)
			p := a
			if c.Loss != "ce" {
				p, _ = ctx.Reshape(a, []int{st.Batch * c.O})
			}
			if c.Loss == "bce" {
				// 1-p is formed from a rounded p: within 1e-6 of 1 its relative error (2^-53 / (1-p))
				// exceeds the tolerance of this check, whatever the implementation
				for _, e := range p.E {
					if d := 1 - e.V; d > 0 && d < 1e-6 {
						return ref.D{}, 0, false
					}
				}
			}
			L, gap := refLoss(ctx, c.Loss, p, ref.FromVals(p.Shape, st.T))
			return L, gap, true
		}
		L, gap, ok := run(false)
		if !ok || (c.Loss != "mse" && gap < 1e-13) {
			evid.Discard("near_kink")
			return nil
		}
		// a diverged trajectory (weights so large that the activation leaves its domain and
		// the defined loss or gradient is no longer finite) ends the comparison
		finite := !math.IsNaN(L.V) && !math.IsInf(L.V, 0)
		for _, tv := range L.T {
			if math.IsNaN(tv) || math.IsInf(tv, 0) {
				finite = false
			}
		}
		for _, v := range append(append([]float64{}, wV...), bV...) {
			if math.Abs(v) > 1e6 {
				finite = false
			}
		}
		if !finite {
			// the library still performs the remaining steps (nothing is compared any more):
			// whatever a diverged run leaves behind in the process must not reach later models
			evid.Discard("diverged_trajectory")
			for _, rest := range c.Steps[si:] {
				if rest.Batch < 1 || len(rest.X) != rest.Batch*c.F {
					break
				}
				if y, err := fc.Forward(lib.MustNew([]int{rest.Batch, c.F}, rest.X, false)); err == nil {
					if a, err := actForward(y); err == nil {
						ts := []int{rest.Batch, c.O}
						if c.Loss != "ce" {
							ts = []int{rest.Batch * c.O}
							a, _ = a.Reshape([]int{rest.Batch * c.O})
						}
						if a != nil && len(rest.T) == rest.Batch*c.O {
							if l, err := compute(a, lib.MustNew(ts, rest.T, false)); err == nil {
								_ = tensor.BackPropagate(l)
								_ = opt.Update(ws[0].Value)
								_ = opt.Update(ws[1].Value)
								(*ws[0].Value).ResetGradContext(true)
								(*ws[1].Value).ResetGradContext(true)
							}
						}
					}
				}
			}
			break
		}
		// the library's step
		x := lib.MustNew([]int{st.Batch, c.F}, st.X, false)
		var tgt tensor.Tensor
		if j := st.Again - 1; j >= 0 && j < si && j < len(xObj) && xObj[j] != nil && c.Steps[j].Batch == st.Batch && sameFloats(c.Steps[j].X, st.X) && sameFloats(c.Steps[j].T, st.T) {
			x, tgt = xObj[j], tObj[j]
			epochs = true
		}
		for len(xObj) <= si {
			xObj, tObj = append(xObj, nil), append(tObj, nil)
		}
		y, err := fc.Forward(x)
		if err != nil {
			return failf("step %d: FC.Forward failed: %v", si, err)
		}
		a, err := actForward(y)
		if err != nil {
			return failf("step %d: %s.Forward failed: %v", si, c.Act.Kind, err)
		}
		tshape := []int{st.Batch, c.O}
		if c.Loss != "ce" {
			tshape = []int{st.Batch * c.O}
			a, err = a.Reshape([]int{st.Batch * c.O})
			if err != nil {
				return failf("step %d: Reshape failed: %v", si, err)
			}
		}
		if tgt == nil {
			tgt = lib.MustNew(tshape, st.T, false)
		}
		xObj[si], tObj[si] = x, tgt
		l, err := compute(a, tgt)
		if err != nil {
			return failf("step %d: %s.Compute failed: %v", si, c.Loss, err)
		}
		_, lval, err := lib.Read(l)
		if err != nil || len(lval) != 1 {
			return failf("step %d: loss unreadable", si)
		}
		if !(math.Abs(lval[0]-L.V) <= 1e-9*math.Max(1, math.Abs(L.V))) {
			return failf("step %d: loss = %v, defined value at the current weights = %v", si, lval[0], L.V)
		}
		if err := tensor.BackPropagate(l); err != nil {
			return failf("step %d: BackPropagate returned error: %v", si, err)
		}
		sitOut := 0
		if !stale && !st.SkipReset && (st.SitOut == 1 || st.SitOut == 2) {
			sitOut = st.SitOut
			satOut = true
		}
		var errW, errB error
		if sitOut != 1 {
			errW = opt.Update(ws[0].Value)
		}
		if sitOut != 2 {
			errB = opt.Update(ws[1].Value)
		}
		if stale {
			// the previous step omitted the reset: this update must be refused, weights untouched
			sawStale = true
			if errW == nil || errB == nil {
				return failf("step %d: the reset was omitted after the previous update, but Update returned no error (W: %v, B: %v) - training on stale state", si, errW, errB)
			}
			if *ws[0].Value != wT || *ws[1].Value != bT {
				return failf("step %d: Update returned an error but replaced the parameter", si)
			}
			(*ws[0].Value).ResetGradContext(true)
			(*ws[1].Value).ResetGradContext(true)
			stale = false
			continue
		}
		if errW != nil || errB != nil {
			return failf("step %d: Update failed: %v / %v", si, errW, errB)
		}
		gW, sW := tangentOf(L, 0, c.O)
		gB, sB := tangentOf(L, c.O, c.O)
		var aL *ref.D
		for pi, par := range []struct {
			name string
			old  []float64
			g, s []float64
			slot int
		}{{"W", wV, gW, sW, 0}, {"B", bV, gB, sB, c.O}} {
			if sitOut == pi+1 {
				if *ws[pi].Value != []tensor.Tensor{wT, bT}[pi] {
					return failf("step %d: %s was not updated in this step but the tensor behind its pointer changed", si, par.name)
				}
				continue
			}
			ns, nv, err := lib.Read(*ws[pi].Value)
			if err != nil {
				return failf("step %d: new %s unreadable: %v", si, par.name, err)
			}
			if len(ns) != 1 || ns[0] != c.O {
				return failf("step %d: %s changed its shape to %v", si, par.name, ns)
			}
			bad := -1
			for k := range nv {
				want := par.old[k] - lr*par.g[k]
				tol := math.Abs(lr)*(1e-9*math.Max(par.s[k], math.Abs(par.g[k]))+1e-10) + 1e-12*math.Abs(par.old[k])
				if math.IsNaN(nv[k]) || math.Abs(nv[k]-want) > tol {
					bad = k
					break
				}
			}
			if bad < 0 {
				continue
			}
			if evid.MatcherOpen("C11", "bcast_avg") && allFinite(nv) {
				if aL == nil {
					d, _, _ := run(true)
					aL = &d
				}
				ag, as := tangentOf(*aL, par.slot, c.O)
				match := true
				for k := range nv {
					want := par.old[k] - lr*ag[k]
					tol := math.Abs(lr)*(1e-9*math.Max(as[k], math.Abs(ag[k]))+1e-10) + 1e-12*math.Abs(par.old[k])
					if math.Abs(nv[k]-want) > tol {
						match = false
						break
					}
				}
				if match {
					evid.Known("D2-C11", map[string]any{"case": c, "step": si, "param": par.name, "new": nv, "gradient_descent": par.old[bad] - lr*par.g[bad]})
					continue
				}
			}
			return failf("step %d (batch %d, %s -> %s, lr %v): %s[%d] moved from %v to %v, gradient descent gives %v (dLoss/d%s = %v)", si, st.Batch, c.Act.Kind, c.Loss, lr, par.name, bad, par.old[bad], nv[bad], par.old[bad]-lr*par.g[bad], par.name, par.g[bad])
		}
		if st.Batch%2 == 1 {
			// an evaluation pass with the updated parameters, before they are reset
			ey, err := fc.Forward(x)
			if err != nil {
				return failf("step %d: evaluation Forward after the update failed: %v", si, err)
			}
			_, nw, _ := lib.Read(*ws[0].Value)
			_, nb, _ := lib.Read(*ws[1].Value)
			ew := refFC(nil, ref.FromVals([]int{st.Batch, c.F}, st.X), ref.FromVals([]int{c.O}, nw), ref.FromVals([]int{c.O}, nb))
			sc := make([]float64, len(ew.E))
			for k := range sc {
				sc[k] = 1 + math.Abs(ew.E[k].V)
			}
			if f := compareTensor(fmt.Sprintf("step %d: evaluation Forward with the updated parameters", si), ey, ew, cmpTol, sc); f != nil {
				return f
			}
		}
		if st.SkipReset {
			stale = true
			if st.Partial == 1 || st.Partial == 2 {
				// only one of the two resets is forgotten
				(*ws[2-st.Partial].Value).ResetGradContext(true)
				partial = true
			}
		} else {
			for pi := range ws {
				(*ws[pi].Value).ResetGradContext(true)
				if (*ws[pi].Value).Gradient() != nil {
					return failf("step %d: gradient survives ResetGradContext", si)
				}
			}
		}
		steps++
		if st.Batch >= 2 {
			multiBatch = true
		}
	}
	evid.Eval()
	evid.Class("C11.act=" + c.Act.Kind)
	evid.Class("C11.loss=" + c.Loss)
	evid.ClassN("C11.steps", steps)
	if steps >= 12 {
		evid.Class("C11.twelve_or_more_steps")
	}
	if epochs {
		evid.Class("C11.epochs_feeding_the_same_batch_tensors_again")
	}
	if satOut {
		evid.Class("C11.a_parameter_sits_out_a_step")
	}
	if partial && sawStale {
		evid.Class("C11.one_of_two_resets_omitted_reported")
	}
	if sawStale {
		evid.Class("C11.omitted_reset_reported")
	}
	unaffected := !multiBatch && c.Act.Kind != "softmax"
	if unaffected {
		evid.Class("C11.regime_unaffected_by_D2")
	}
	if (steps >= 2 && multiBatch) || (unaffected && steps >= 3) {
		evid.Class(fmt.Sprintf("C11.nontrivial_lr=%v", lr))
		evid.NonTrivial(c)
	}
	return nil
}

// divergedPrehistory runs, once per process, blown-up models (weights 1e308: pre-activations,
// losses and gradients are Inf / NaN) of every small shape through forward, loss,
// back-propagation, update and reset. Nothing such a run leaves behind in the process may
// reach the healthy models generated afterwards ("nothing from an earlier step leaks").
func divergedPrehistory() {
	for _, act := range []string{"relu", "leaky", "sigmoid", "tanh", "softmax"} {
		for _, loss := range []string{"mse", "bce", "ce"} {
			for b := 1; b <= 5; b++ {
				for o := 1; o <= 4; o++ {
					fc, err := layers.NewFC(&layers.FCConfig{Inputs: 2, Outputs: o})
					if err != nil {
						continue
					}
					ws := fc.Weights()
					huge := make([]float64, o)
					for i := range huge {
						huge[i] = 1e308 * float64(1-2*(i%2))
					}
					*ws[0].Value = lib.MustNew([]int{o}, huge, true)
					*ws[1].Value = lib.MustNew([]int{o}, huge, true)
					xv := make([]float64, b*2)
					for i := range xv {
						xv[i] = 3 + float64(i)
					}
					y, err := fc.Forward(lib.MustNew([]int{b, 2}, xv, false))
					if err != nil {
						continue
					}
					fw, err := ActCase{Kind: act, NilConf: true}.layer()
					if err != nil {
						continue
					}
					a, err := fw(y)
					if err != nil {
						continue
					}
					ts := []int{b, o}
					if loss != "ce" {
						ts = []int{b * o}
						if a, err = a.Reshape(ts); err != nil {
							continue
						}
					}
					l, err := newLoss(loss)(a, lib.MustNew(ts, make([]float64, b*o), false))
					if err != nil {
						continue
					}
					_ = tensor.BackPropagate(l)
					opt := optimizers.NewSGD(nil)
					_ = opt.Update(ws[0].Value)
					_ = opt.Update(ws[1].Value)
					(*ws[0].Value).ResetGradContext(true)
					(*ws[1].Value).ResetGradContext(true)
				}
			}
		}
	}
}

func TestC11_training(t *testing.T) {
	if sh := os.Getenv("VERIF_SHARD"); sh != "" && sh != "0" {
		// every shard but the first starts its process with a diverged history
		divergedPrehistory()
		evid.Class("C11.process_started_with_diverged_models")
	}
	run(t, 4000, func(rt *rapid.T) {
		c := genC11(rt)
		if f := guard(func() *Failure { return checkC11(c) }); f != nil {
			fail(rt, "C11/training", c, f)
		}
	})
}
