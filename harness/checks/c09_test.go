package checks

import (
	"encoding/json"
	"errors"
	"fmt"
	"math"
	"testing"
	"time"

	"github.com/sahandsafizadeh/qeep/component/initializers"
	"github.com/sahandsafizadeh/qeep/component/layers"
	"github.com/sahandsafizadeh/qeep/component/layers/activations"
	"github.com/sahandsafizadeh/qeep/component/losses"
	"github.com/sahandsafizadeh/qeep/component/metrics"
	"github.com/sahandsafizadeh/qeep/component/optimizers"
	"github.com/sahandsafizadeh/qeep/tensor"
	"pgregory.net/rapid"

	"qeepverif/evid"
	"qeepverif/lib"
	"qeepverif/ref"
)

// TArg describes a tensor argument: a library tensor of a shape, the nil interface, or a
// foreign implementation of the Tensor interface defined in this harness.
type TArg struct {
	// Kind: 0 library tensor, 1 nil, 2 foreign implementation, 3 the very tensor object that
	// precedes it in the call (the receiver, or the previous tensor argument); Shape then
	// repeats that tensor's shape
	Kind  int   `json:"kind"`
	Shape []int `json:"shape"`
	Grad  bool  `json:"grad,omitempty"` // give it a gradient first (SGD.Update)
	// Life: where in its life the tensor is when it is passed (lifeTensor)
	Life int `json:"life,omitempty"`
}

// isLib: the argument is a library tensor (a fresh one or an alias of the preceding one).
func (a TArg) isLib() bool { return a.Kind == 0 || a.Kind == 3 }

// lifeTensor builds a library tensor of the given shape at a point of its life:
//   0 fresh leaf                     1 result of an operation on a fresh leaf
//   2 spent (back-propagated through) 3 computed from a spent tensor
//   4 computed from a spent tensor, then ResetGradContext(tracked)
//   5 spent, then ResetGradContext(tracked)
// What a call accepts and the shape it returns do not depend on this.
func lifeTensor(shape []int, tracked bool, life int) tensor.Tensor {
	if life <= 0 || life > 5 {
		return mkTensor(shape, tracked)
	}
	if life == 1 {
		return mkTensor(shape, tracked).Scale(1)
	}
	x := mkTensor(shape, true)
	if err := tensor.BackPropagate(x.Scale(2)); err != nil {
		panic("harness: " + err.Error())
	}
	switch life {
	case 3:
		return x.Scale(1)
	case 4:
		y := x.Scale(1)
		y.ResetGradContext(tracked)
		return y
	case 5:
		x.ResetGradContext(tracked)
	}
	return x
}

func drawLife(t *rapid.T) int {
	if rapid.IntRange(0, 2).Draw(t, "lifeplain") > 0 {
		return 0
	}
	return rapid.IntRange(1, 5).Draw(t, "life")
}

// C09Case is one call of one public entry point with arbitrary arguments.
type C09Case struct {
	Entry   string          `json:"entry"`
	Recv    []int           `json:"recv,omitempty"` // receiver shape for Tensor methods
	T       []TArg          `json:"t,omitempty"`
	Ints    []int           `json:"ints,omitempty"`
	Dims    []int           `json:"dims,omitempty"`
	DimsNil bool            `json:"dims_nil,omitempty"`
	Idx     []ref.Range     `json:"idx,omitempty"`
	IdxNil  bool            `json:"idx_nil,omitempty"`
	F       []float64       `json:"f,omitempty"`
	Conf    int             `json:"conf,omitempty"` // 0 nil, 1 CPU, 2 CPU+GradTrack, 3 Config{}, 4 Device 2, 5 Device -1
	Depth   int             `json:"depth,omitempty"`
	Data    json.RawMessage `json:"data,omitempty"` // nested arrays for TensorOf
	K       []int           `json:"k,omitempty"`    // component configuration choices
	// Again: the call is made a second time on the same receiver with the same argument slice
	// objects after the caller changed one entry in place (Again = 1 + position, AgainBy = delta);
	// the second call is judged by the specification of the changed arguments
	Again   int `json:"again,omitempty"`
	AgainBy int `json:"again_by,omitempty"`
}

func init() { register("C09/total", checkC09) }

type foreignTensor struct{ tensor.Tensor }

func mkTensor(shape []int, tracked bool) tensor.Tensor {
	n := ref.Prod(shape)
	v := make([]float64, n)
	for i := range v {
		v[i] = 0.5 * float64(i+1)
	}
	return lib.MustNew(shape, v, tracked)
}

func (a TArg) build() tensor.Tensor {
	switch a.Kind {
	case 1:
		return nil
	case 2:
		return foreignTensor{mkTensor(a.Shape, false)}
	}
	if !a.Grad {
		return lifeTensor(a.Shape, false, a.Life)
	}
	x := mkTensor(a.Shape, true)
	if err := tensor.BackPropagate(x.Scale(2)); err != nil {
		panic(err)
	}
	return x
}

// arg builds tensor argument k; an alias (Kind 3) resolves to prev, the tensor object that
// precedes it in the call, when the recorded shape matches.
func (c C09Case) arg(k int, prev tensor.Tensor) tensor.Tensor {
	a := c.t(k)
	if a.Kind == 3 {
		if prev != nil && ref.EqShape(prev.Shape(), a.Shape) {
			return prev
		}
		a.Kind = 0
	}
	return a.build()
}

func (c C09Case) conf() *tensor.Config {
	switch c.Conf {
	case 1:
		return &tensor.Config{Device: tensor.CPU}
	case 2:
		return &tensor.Config{Device: tensor.CPU, GradTrack: true}
	case 3:
		return &tensor.Config{}
	case 4:
		return &tensor.Config{Device: 2}
	case 5:
		return &tensor.Config{Device: -1, GradTrack: true}
	}
	return nil
}
func (c C09Case) confOK() bool { return c.Conf <= 2 }

func (c C09Case) dims() []int {
	if c.DimsNil {
		return nil
	}
	return append([]int{}, c.Dims...)
}
func (c C09Case) idx() []tensor.Range {
	if c.IdxNil {
		return nil
	}
	o := make([]tensor.Range, len(c.Idx))
	for i, r := range c.Idx {
		o[i] = tensor.Range{From: r.From, To: r.To}
	}
	return o
}
func (c C09Case) i(k int) int {
	if k < len(c.Ints) {
		return c.Ints[k]
	}
	return 0
}
func (c C09Case) f(k int) float64 {
	if k < len(c.F) {
		return c.F[k]
	}
	return 0
}
func (c C09Case) k(i int) int {
	if i < len(c.K) {
		return c.K[i]
	}
	return 0
}
func (c C09Case) t(k int) TArg {
	if k < len(c.T) {
		return c.T[k]
	}
	return TArg{Kind: 1}
}

/* ---------- nested data for TensorOf ---------- */

// nestedFrom converts decoded JSON ([]any / float64 / nil) into the typed nested slice of the
// requested depth; shapeOf reports whether it is rectangular and non-empty, and its shape.
func nestedFrom(raw json.RawMessage, depth int) (data any, rect bool, shape []int, err error) {
	var v any
	if len(raw) > 0 {
		if err = json.Unmarshal(raw, &v); err != nil {
			return
		}
	}
	var conv func(v any, d int) (any, error)
	conv = func(v any, d int) (any, error) {
		if d == 0 {
			f, ok := v.(float64)
			if !ok {
				return nil, fmt.Errorf("expected number")
			}
			return f, nil
		}
		var items []any
		if v != nil {
			var ok bool
			items, ok = v.([]any)
			if !ok {
				return nil, fmt.Errorf("expected array at depth %d", d)
			}
		}
		switch d {
		case 1:
			if v == nil {
				return []float64(nil), nil
			}
			o := make([]float64, len(items))
			for i, it := range items {
				x, err := conv(it, 0)
				if err != nil {
					return nil, err
				}
				o[i] = x.(float64)
			}
			return o, nil
		case 2:
			if v == nil {
				return [][]float64(nil), nil
			}
			o := make([][]float64, len(items))
			for i, it := range items {
				x, err := conv(it, 1)
				if err != nil {
					return nil, err
				}
				o[i] = x.([]float64)
			}
			return o, nil
		case 3:
			if v == nil {
				return [][][]float64(nil), nil
			}
			o := make([][][]float64, len(items))
			for i, it := range items {
				x, err := conv(it, 2)
				if err != nil {
					return nil, err
				}
				o[i] = x.([][]float64)
			}
			return o, nil
		case 4:
			if v == nil {
				return [][][][]float64(nil), nil
			}
			o := make([][][][]float64, len(items))
			for i, it := range items {
				x, err := conv(it, 3)
				if err != nil {
					return nil, err
				}
				o[i] = x.([][][]float64)
			}
			return o, nil
		}
		return nil, fmt.Errorf("depth %d", d)
	}
	data, err = conv(v, depth)
	if err != nil {
		return
	}
	// rectangularity from the decoded generic form
	var shp func(v any, d int) ([]int, bool)
	shp = func(v any, d int) ([]int, bool) {
		if d == 0 {
			return []int{}, true
		}
		items, _ := v.([]any)
		if len(items) == 0 {
			return nil, false
		}
		var first []int
		for i, it := range items {
			s, ok := shp(it, d-1)
			if !ok {
				return nil, false
			}
			if i == 0 {
				first = s
			} else if !ref.EqShape(first, s) {
				return nil, false
			}
		}
		return append([]int{len(items)}, first...), true
	}
	shape, rect = shp(v, depth)
	return
}

func drawNested(t *rapid.T, depth int, ragged bool, dims []int, counter *int) any {
	if depth == 0 {
		*counter++
		return float64(*counter)
	}
	n := dims[0]
	if ragged && rapid.IntRange(0, 3).Draw(t, "ragged") == 0 {
		n = rapid.IntRange(0, 3).Draw(t, "len")
		if n == 0 && rapid.Bool().Draw(t, "nilinner") {
			return nil
		}
	}
	o := make([]any, n)
	for i := range o {
		o[i] = drawNested(t, depth-1, ragged, dims[1:], counter)
	}
	return o
}

/* ---------- outcome of a call ---------- */

type outcome struct {
	hasErr   bool // the entry point has an error result
	err      error
	tensor   tensor.Tensor
	isTensor bool // the entry point returns a tensor
	zero     bool // non-tensor result is its zero value / nil
	note     string
	recv     tensor.Tensor // the receiver of a Tensor method call
}

type expect struct {
	valid       bool
	unspecified bool  // the documentation leaves the outcome open
	shape       []int // defined shape of a tensor result (nil: not checked)
	checkShape  bool
	nilOK       bool // a nil tensor result is acceptable without error
}

var errHang = errors.New("call did not return within the watchdog limit")

// guardedCall runs f under recover and a watchdog.
func guardedCall(f func() outcome) (o outcome, panicked any, hung bool) {
	type res struct {
		o outcome
		p any
	}
	ch := make(chan res, 1)
	go func() {
		var r res
		defer func() {
			if p := recover(); p != nil {
				r.p = p
			}
			ch <- r
		}()
		r.o = f()
	}()
	timer := time.NewTimer(20 * time.Second)
	defer timer.Stop()
	select {
	case r := <-ch:
		return r.o, r.p, false
	case <-timer.C:
		return outcome{}, nil, true
	}
}

func tOut(x tensor.Tensor, err error) outcome {
	return outcome{hasErr: true, err: err, tensor: x, isTensor: true}
}

/* ---------- the entry points: call + specification ---------- */

type c09Entry struct {
	name string
	gen  func(t *rapid.T, c *C09Case)
	call func(c C09Case) outcome
	spec func(c C09Case) expect
}

func dimsValid(d []int) bool { return ref.ValidDims(d) }

func shapeOrEmpty(d []int) []int {
	if d == nil {
		return []int{}
	}
	return ref.Cp(d)
}

func refT(shape []int) ref.T { return ref.FromVals(shape, make([]float64, ref.Prod(shape))) }

func toRefIdx(c C09Case) []ref.Range {
	if c.IdxNil {
		return nil
	}
	return c.Idx
}

// binarySpec: other operand must be a library tensor and shapes must satisfy rel.
func binarySpec(c C09Case, rel func(a, b []int) ([]int, error)) expect {
	o := c.t(0)
	if !o.isLib() {
		return expect{valid: false}
	}
	s, err := rel(c.Recv, o.Shape)
	if err != nil {
		return expect{valid: false}
	}
	return expect{valid: true, shape: s, checkShape: true}
}

func sameShapeRel(a, b []int) ([]int, error) {
	if !ref.EqShape(a, b) {
		return nil, ref.ErrInvalid
	}
	return ref.Cp(a), nil
}

func dotRel(a, b []int) ([]int, error) {
	r, err := (*ref.Ctx)(nil).Dot(refT(a), refT(b))
	return r.Shape, err
}
func matmulRel(a, b []int) ([]int, error) {
	r, err := (*ref.Ctx)(nil).MatMul(refT(a), refT(b))
	return r.Shape, err
}

var c09Entries []c09Entry

func addEntry(e c09Entry) { c09Entries = append(c09Entries, e) }

// small hostile integers
func hInt(t *rapid.T, label string) int { return rapid.IntRange(-2, 6).Draw(t, label) }

func drawRecv(t *rapid.T) []int {
	if rapid.IntRange(0, 11).Draw(t, "longrecv") == 0 {
		long := rapid.SampledFrom([]int{17, 32, 33, 40, 64}).Draw(t, "long")
		switch rapid.IntRange(0, 3).Draw(t, "longform") {
		case 0:
			return []int{long}
		case 1:
			return []int{2, long}
		case 2:
			return []int{long, 3}
		default:
			return []int{2, 1, long}
		}
	}
	rank := rapid.IntRange(0, 5).Draw(t, "recvrank")
	s := make([]int, rank)
	n := 1
	for i := range s {
		hi := 3
		for hi > 1 && n*hi > 72 {
			hi--
		}
		s[i] = rapid.IntRange(1, hi).Draw(t, "recvdim")
		n *= s[i]
	}
	return s
}

// perturbShape returns a shape near s: equal, one dim changed, a dim dropped/added, ...
func perturbShape(t *rapid.T, s []int) []int {
	o := ref.Cp(s)
	switch rapid.IntRange(0, 5).Draw(t, "perturb") {
	case 0, 1:
		return o
	case 2:
		if len(o) > 0 {
			k := rapid.IntRange(0, len(o)-1).Draw(t, "pk")
			o[k] = rapid.IntRange(1, 4).Draw(t, "pv")
		}
	case 3:
		if len(o) > 0 {
			o = o[1:]
		}
	case 4:
		if len(o) < 5 {
			o = append([]int{rapid.IntRange(1, 3).Draw(t, "lead")}, o...)
		}
	default:
		if len(o) > 0 {
			o[rapid.IntRange(0, len(o)-1).Draw(t, "one")] = 1
		}
	}
	return o
}

func drawOther(t *rapid.T, near []int) TArg {
	switch rapid.IntRange(0, 11).Draw(t, "tkind") {
	case 0:
		return TArg{Kind: 1}
	case 1:
		return TArg{Kind: 2, Shape: perturbShape(t, near)}
	}
	return TArg{Kind: 0, Shape: perturbShape(t, near)}
}

// drawOtherOrSame is drawOther for the operand of a binary method: sometimes the receiver itself.
func drawOtherOrSame(t *rapid.T, recv []int) TArg {
	if rapid.IntRange(0, 9).Draw(t, "sameobject") == 0 {
		return TArg{Kind: 3, Shape: ref.Cp(recv)}
	}
	a := drawOther(t, recv)
	if a.Kind == 0 {
		a.Life = drawLife(t)
	}
	return a
}

func drawHostileDims(t *rapid.T, near []int) ([]int, bool) {
	switch rapid.IntRange(0, 5).Draw(t, "dimsmode") {
	case 0:
		return nil, rapid.Bool().Draw(t, "dimsnil")
	case 1:
		n := rapid.IntRange(0, 6).Draw(t, "ndims")
		d := make([]int, n)
		for i := range d {
			d[i] = hInt(t, "d")
		}
		return d, false
	case 2:
		d := perturbShape(t, near)
		if len(d) > 0 {
			d[rapid.IntRange(0, len(d)-1).Draw(t, "hk")] = rapid.IntRange(-2, 1).Draw(t, "hv")
		}
		return d, false
	}
	return perturbShape(t, near), false
}

func drawHostileIdx(t *rapid.T, dims []int) ([]ref.Range, bool) {
	switch rapid.IntRange(0, 4).Draw(t, "idxmode") {
	case 0:
		return nil, rapid.Bool().Draw(t, "idxnil")
	case 1:
		n := rapid.IntRange(0, 6).Draw(t, "nidx")
		r := make([]ref.Range, n)
		for i := range r {
			r[i] = ref.Range{From: hInt(t, "from"), To: hInt(t, "to")}
		}
		return r, false
	}
	// valid by construction, then perturbed by at most one
	n := rapid.IntRange(0, len(dims)).Draw(t, "nidxv")
	r := make([]ref.Range, n)
	for i := range r {
		if rapid.IntRange(0, 3).Draw(t, "whole") == 0 {
			continue
		}
		from := rapid.IntRange(0, dims[i]-1).Draw(t, "from")
		r[i] = ref.Range{From: from, To: rapid.IntRange(from+1, dims[i]).Draw(t, "to")}
	}
	if n > 0 && rapid.Bool().Draw(t, "perturbidx") {
		k := rapid.IntRange(0, n-1).Draw(t, "pik")
		if rapid.Bool().Draw(t, "pfrom") {
			r[k].From += rapid.IntRange(-1, 1).Draw(t, "pd")
		} else {
			r[k].To += rapid.IntRange(-1, 1).Draw(t, "pd")
		}
	}
	if rapid.IntRange(0, 7).Draw(t, "extra") == 0 {
		r = append(r, ref.Range{From: 0, To: 1})
	}
	return r, false
}

func drawConf(t *rapid.T) int {
	if rapid.IntRange(0, 2).Draw(t, "confok") > 0 {
		return rapid.IntRange(0, 2).Draw(t, "conf")
	}
	return rapid.IntRange(0, 5).Draw(t, "confany")
}

func recvOf(c C09Case) tensor.Tensor { return lifeTensor(c.Recv, c.k(9) == 1, c.k(8)) }

func init() {
	/* ----- constructors ----- */
	ctor := func(name string, call func(c C09Case) outcome, extra func(c C09Case) bool) {
		addEntry(c09Entry{name: name,
			gen: func(t *rapid.T, c *C09Case) {
				c.Dims, c.DimsNil = drawHostileDims(t, drawRecv(t))
				c.Conf = drawConf(t)
				c.F = []float64{float64(hInt(t, "f0")), float64(hInt(t, "f1"))}
				if rapid.IntRange(0, 5).Draw(t, "hugeparams") == 0 {
					// valid parameters at the edge of the float64 range
					huge := []float64{-1e308, 1e308, math.MaxFloat64, -math.MaxFloat64, 5e-324, 1.5e308, -1.7e308}
					c.F = []float64{rapid.SampledFrom(huge).Draw(t, "hf0"), rapid.SampledFrom(huge).Draw(t, "hf1")}
				}
			},
			call: call,
			spec: func(c C09Case) expect {
				ok := c.confOK() && dimsValid(c.Dims) && extra(c)
				return expect{valid: ok, shape: shapeOrEmpty(c.dims()), checkShape: true}
			}})
	}
	yes := func(C09Case) bool { return true }
	ctor("tensor.Full", func(c C09Case) outcome { return tOut(tensor.Full(c.dims(), c.f(0), c.conf())) }, yes)
	ctor("tensor.Zeros", func(c C09Case) outcome { return tOut(tensor.Zeros(c.dims(), c.conf())) }, yes)
	ctor("tensor.Ones", func(c C09Case) outcome { return tOut(tensor.Ones(c.dims(), c.conf())) }, yes)
	ctor("tensor.RandU", func(c C09Case) outcome { return tOut(tensor.RandU(c.dims(), c.f(0), c.f(1), c.conf())) },
		func(c C09Case) bool { return c.f(0) < c.f(1) })
	ctor("tensor.RandN", func(c C09Case) outcome { return tOut(tensor.RandN(c.dims(), c.f(0), c.f(1), c.conf())) },
		func(c C09Case) bool { return c.f(1) > 0 })
	addEntry(c09Entry{name: "tensor.Eye",
		gen:  func(t *rapid.T, c *C09Case) { c.Ints = []int{hInt(t, "n")}; c.Conf = drawConf(t) },
		call: func(c C09Case) outcome { return tOut(tensor.Eye(c.i(0), c.conf())) },
		spec: func(c C09Case) expect {
			return expect{valid: c.confOK() && c.i(0) > 0, shape: []int{c.i(0), c.i(0)}, checkShape: true}
		}})
	addEntry(c09Entry{name: "tensor.TensorOf",
		gen: func(t *rapid.T, c *C09Case) {
			c.Depth = rapid.IntRange(0, 4).Draw(t, "depth")
			dims := make([]int, c.Depth)
			for i := range dims {
				dims[i] = rapid.IntRange(1, 3).Draw(t, "d")
			}
			cnt := 0
			v := drawNested(t, c.Depth, rapid.Bool().Draw(t, "raggedcase"), dims, &cnt)
			c.Data, _ = json.Marshal(v)
			c.Conf = drawConf(t)
		},
		call: func(c C09Case) outcome {
			data, _, _, err := nestedFrom(c.Data, c.Depth)
			if err != nil {
				panic("harness: " + err.Error())
			}
			return tOut(lib.TensorOfAny(data, c.conf()))
		},
		spec: func(c C09Case) expect {
			_, rect, shape, _ := nestedFrom(c.Data, c.Depth)
			return expect{valid: c.confOK() && rect, shape: shape, checkShape: true}
		}})
	addEntry(c09Entry{name: "tensor.Concat",
		gen: func(t *rapid.T, c *C09Case) {
			base := drawRecv(t)
			n := rapid.IntRange(0, 4).Draw(t, "count")
			dim := hInt(t, "dim")
			if len(base) > 0 && rapid.Bool().Draw(t, "validdim") {
				dim = rapid.IntRange(0, len(base)-1).Draw(t, "vdim")
			}
			for i := 0; i < n; i++ {
				if rapid.IntRange(0, 2).Draw(t, "fit") > 0 && dim >= 0 && dim < len(base) {
					s := ref.Cp(base)
					s[dim] = rapid.IntRange(1, 3).Draw(t, "catd")
					c.T = append(c.T, TArg{Kind: 0, Shape: s})
				} else {
					c.T = append(c.T, drawOther(t, base))
				}
				if k := len(c.T) - 1; k > 0 && c.T[k].Kind == 0 && c.T[k-1].isLib() && rapid.IntRange(0, 5).Draw(t, "sameobject") == 0 {
					c.T[k] = TArg{Kind: 3, Shape: ref.Cp(c.T[k-1].Shape)}
				} else if c.T[k].Kind == 0 {
					c.T[k].Life = drawLife(t)
				}
			}
			if rapid.IntRange(0, 9).Draw(t, "nilslice") == 0 {
				c.T = nil
			}
			c.Ints = []int{dim}
		},
		call: func(c C09Case) outcome {
			var ts []tensor.Tensor
			var prev tensor.Tensor
			for k := range c.T {
				prev = c.arg(k, prev)
				ts = append(ts, prev)
			}
			return tOut(tensor.Concat(ts, c.i(0)))
		},
		spec: func(c C09Case) expect {
			var rs []ref.T
			for _, a := range c.T {
				if !a.isLib() {
					return expect{valid: false}
				}
				rs = append(rs, refT(a.Shape))
			}
			r, err := (*ref.Ctx)(nil).Concat(rs, c.i(0))
			return expect{valid: err == nil, shape: r.Shape, checkShape: true}
		}})
	addEntry(c09Entry{name: "tensor.BackPropagate",
		gen: func(t *rapid.T, c *C09Case) {
			c.T = []TArg{drawOther(t, drawRecv(t))}
			c.K = []int{rapid.IntRange(0, 4).Draw(t, "bpkind")}
			if c.K[0] >= 3 && c.T[0].Kind == 0 {
				// a tracked tensor with size-1 dims, expanded (explicitly or inside Mul) before BackPropagate
				s := c.T[0].Shape
				dst := ref.Cp(s)
				for i := range s {
					if rapid.Bool().Draw(t, "one") {
						s[i] = 1
						dst[i] = rapid.IntRange(1, 3).Draw(t, "exp")
					}
				}
				if rapid.Bool().Draw(t, "lead") && len(dst) < 5 {
					dst = append([]int{2}, dst...)
				}
				c.Dims = dst
			}
		},
		call: func(c C09Case) outcome {
			x := c.t(0).build()
			if c.t(0).Kind == 0 {
				switch c.k(0) {
				case 1:
					x.ResetGradContext(true)
				case 2:
					x.ResetGradContext(true)
					x = x.Sin()
				case 3, 4:
					x.ResetGradContext(true)
					var y tensor.Tensor
					var err error
					if c.k(0) == 3 {
						y, err = x.Broadcast(c.dims())
					} else {
						y, err = x.Mul(mkTensor(c.Dims, false))
					}
					if err != nil {
						panic("harness: expansion rejected: " + err.Error())
					}
					x = y
				}
			}
			return outcome{hasErr: true, err: tensor.BackPropagate(x), zero: true}
		},
		spec: func(c C09Case) expect { return expect{valid: c.t(0).Kind == 0} }})

	/* ----- Tensor methods ----- */
	method := func(name string, gen func(t *rapid.T, c *C09Case), call func(x tensor.Tensor, c C09Case) outcome, spec func(c C09Case) expect) {
		addEntry(c09Entry{name: "Tensor." + name,
			gen: func(t *rapid.T, c *C09Case) {
				c.Recv = drawRecv(t)
				c.K = make([]int, 10)
				c.K[9] = rapid.IntRange(0, 1).Draw(t, "recvtracked")
				if name != "Gradient" {
					c.K[8] = drawLife(t)
				}
				if gen != nil {
					gen(t, c)
				}
			},
			call: func(c C09Case) outcome {
				x := recvOf(c)
				o := call(x, c)
				o.recv = x
				return o
			},
			spec: spec})
	}
	always := func(c C09Case) expect { return expect{valid: true} }
	sameShape := func(c C09Case) expect { return expect{valid: true, shape: ref.Cp(c.Recv), checkShape: true} }
	plain := func(v any) outcome { return outcome{zero: false, note: fmt.Sprint(v)} }

	method("NElems", nil, func(x tensor.Tensor, c C09Case) outcome {
		if n := x.NElems(); n != ref.Prod(c.Recv) {
			return outcome{note: fmt.Sprintf("BAD NElems = %d for shape %v", n, c.Recv)}
		}
		return plain(nil)
	}, always)
	method("Shape", nil, func(x tensor.Tensor, c C09Case) outcome {
		if s := x.Shape(); !ref.EqShape(s, c.Recv) {
			return outcome{note: fmt.Sprintf("BAD Shape = %v for shape %v", s, c.Recv)}
		}
		return plain(nil)
	}, always)
	method("At", func(t *rapid.T, c *C09Case) {
		if rapid.Bool().Draw(t, "validat") {
			for _, d := range c.Recv {
				c.Ints = append(c.Ints, rapid.IntRange(0, d-1).Draw(t, "at"))
			}
			if len(c.Ints) > 0 && rapid.Bool().Draw(t, "perturbat") {
				c.Ints[rapid.IntRange(0, len(c.Ints)-1).Draw(t, "atk")] += rapid.SampledFrom([]int{-1, 1, 2}).Draw(t, "atd")
			}
			if rapid.IntRange(0, 5).Draw(t, "atlen") == 0 {
				c.Ints = append(c.Ints, 0)
			}
		} else {
			n := rapid.IntRange(0, 6).Draw(t, "nat")
			for i := 0; i < n; i++ {
				c.Ints = append(c.Ints, hInt(t, "at"))
			}
		}
	}, func(x tensor.Tensor, c C09Case) outcome {
		v, err := x.At(c.Ints...)
		return outcome{hasErr: true, err: err, zero: v == 0}
	}, func(c C09Case) expect {
		ok := len(c.Ints) == len(c.Recv)
		for i := 0; ok && i < len(c.Ints); i++ {
			ok = c.Ints[i] >= 0 && c.Ints[i] < c.Recv[i]
		}
		return expect{valid: ok}
	})
	method("Slice", func(t *rapid.T, c *C09Case) { c.Idx, c.IdxNil = drawHostileIdx(t, c.Recv) },
		func(x tensor.Tensor, c C09Case) outcome { return tOut(x.Slice(c.idx())) },
		func(c C09Case) expect {
			r, err := (*ref.Ctx)(nil).Slice(refT(c.Recv), toRefIdx(c))
			return expect{valid: err == nil, shape: r.Shape, checkShape: true}
		})
	method("Patch", func(t *rapid.T, c *C09Case) {
		if rapid.IntRange(0, 3).Draw(t, "validpatch") > 0 {
			src := make([]int, len(c.Recv))
			for i := range src {
				src[i] = rapid.IntRange(1, c.Recv[i]).Draw(t, "srcd")
			}
			n := rapid.IntRange(0, len(src)).Draw(t, "npidx")
			c.Idx = make([]ref.Range, n)
			for i := range c.Idx {
				if rapid.IntRange(0, 3).Draw(t, "pwhole") == 0 {
					continue
				}
				from := rapid.IntRange(0, c.Recv[i]-src[i]).Draw(t, "pfrom")
				c.Idx[i] = ref.Range{From: from, To: from + src[i]}
			}
			c.IdxNil = n == 0 && rapid.Bool().Draw(t, "pnil")
			switch rapid.IntRange(0, 5).Draw(t, "pperturb") {
			case 0:
				if n > 0 {
					c.Idx[rapid.IntRange(0, n-1).Draw(t, "pk")].To += rapid.SampledFrom([]int{-1, 1}).Draw(t, "pd")
				}
			case 1:
				if len(src) > 0 {
					src[rapid.IntRange(0, len(src)-1).Draw(t, "sk")] += 1
				}
			case 2:
				if n > 0 {
					k := rapid.IntRange(0, n-1).Draw(t, "pk")
					c.Idx[k].From++
					c.Idx[k].To++
				}
			}
			c.T = []TArg{{Kind: 0, Shape: src}}
		} else {
			c.Idx, c.IdxNil = drawHostileIdx(t, c.Recv)
			c.T = []TArg{drawOtherOrSame(t, c.Recv)}
		}
	}, func(x tensor.Tensor, c C09Case) outcome { return tOut(x.Patch(c.idx(), c.arg(0, x))) },
		func(c C09Case) expect {
			if !c.t(0).isLib() {
				return expect{valid: false}
			}
			_, err := ref.PatchOffsets(toRefIdx(c), c.t(0).Shape, c.Recv)
			return expect{valid: err == nil, shape: ref.Cp(c.Recv), checkShape: true}
		})
	method("Transpose", nil, func(x tensor.Tensor, c C09Case) outcome { return tOut(x.Transpose()) },
		func(c C09Case) expect {
			r, err := (*ref.Ctx)(nil).Transpose(refT(c.Recv))
			return expect{valid: err == nil, shape: r.Shape, checkShape: true}
		})
	method("Reshape", func(t *rapid.T, c *C09Case) {
		if rapid.Bool().Draw(t, "validreshape") {
			n := ref.Prod(c.Recv)
			var s []int
			for n > 1 && len(s) < 5 {
				d := rapid.SampledFrom(divisors(n)).Draw(t, "div")
				s = append(s, d)
				n /= d
			}
			if rapid.Bool().Draw(t, "one") {
				s = append(s, 1)
			}
			c.Dims = s
			c.DimsNil = len(s) == 0 && rapid.Bool().Draw(t, "rnil")
			if len(s) > 0 && rapid.IntRange(0, 3).Draw(t, "rperturb") == 0 {
				c.Dims[rapid.IntRange(0, len(s)-1).Draw(t, "rk")] += rapid.SampledFrom([]int{-1, 1}).Draw(t, "rd")
			}
		} else {
			c.Dims, c.DimsNil = drawHostileDims(t, c.Recv)
		}
	}, func(x tensor.Tensor, c C09Case) outcome { return tOut(x.Reshape(c.dims())) },
		func(c C09Case) expect {
			r, err := (*ref.Ctx)(nil).Reshape(refT(c.Recv), c.Dims)
			return expect{valid: err == nil, shape: r.Shape, checkShape: true}
		})
	dimGen := func(t *rapid.T, c *C09Case) {
		if rapid.Bool().Draw(t, "neardim") {
			c.Ints = []int{len(c.Recv) + rapid.IntRange(-2, 1).Draw(t, "doff")}
		} else {
			c.Ints = []int{hInt(t, "dim")}
		}
	}
	dimMethod := func(name string, call func(x tensor.Tensor, d int) (tensor.Tensor, error), rf func(a ref.T, d int) (ref.T, error)) {
		method(name, dimGen, func(x tensor.Tensor, c C09Case) outcome { return tOut(call(x, c.i(0))) },
			func(c C09Case) expect {
				r, err := rf(refT(c.Recv), c.i(0))
				return expect{valid: err == nil, shape: r.Shape, checkShape: true}
			})
	}
	nc := (*ref.Ctx)(nil)
	dimMethod("UnSqueeze", func(x tensor.Tensor, d int) (tensor.Tensor, error) { return x.UnSqueeze(d) }, nc.UnSqueeze)
	dimMethod("Squeeze", func(x tensor.Tensor, d int) (tensor.Tensor, error) { return x.Squeeze(d) }, nc.Squeeze)
	dimMethod("Flatten", func(x tensor.Tensor, d int) (tensor.Tensor, error) { return x.Flatten(d) }, nc.Flatten)
	for _, st := range []string{"Sum", "Max", "Min", "Avg", "Var", "Std", "Mean"} {
		st := st
		dimMethod(st+"Along", func(x tensor.Tensor, d int) (tensor.Tensor, error) {
			switch st {
			case "Sum":
				return x.SumAlong(d)
			case "Max":
				return x.MaxAlong(d)
			case "Min":
				return x.MinAlong(d)
			case "Avg":
				return x.AvgAlong(d)
			case "Var":
				return x.VarAlong(d)
			case "Std":
				return x.StdAlong(d)
			}
			return x.MeanAlong(d)
		}, func(a ref.T, d int) (ref.T, error) { return nc.ReduceAlong("sum", a, d) })
		method(st, nil, func(x tensor.Tensor, c C09Case) outcome {
			var v float64
			switch st {
			case "Sum":
				v = x.Sum()
			case "Max":
				v = x.Max()
			case "Min":
				v = x.Min()
			case "Avg":
				v = x.Avg()
			case "Var":
				v = x.Var()
			case "Std":
				v = x.Std()
			default:
				v = x.Mean()
			}
			if math.IsNaN(v) || math.IsInf(v, 0) {
				return outcome{note: fmt.Sprintf("BAD %s() = %v on finite data", st, v)}
			}
			return plain(v)
		}, always)
	}
	method("Broadcast", func(t *rapid.T, c *C09Case) {
		if rapid.Bool().Draw(t, "validbc") {
			s := ref.Cp(c.Recv)
			for i := range s {
				if s[i] == 1 && rapid.Bool().Draw(t, "exp") {
					s[i] = rapid.IntRange(1, 3).Draw(t, "expd")
				}
			}
			for rapid.IntRange(0, 2).Draw(t, "lead") == 0 && len(s) < 6 {
				s = append([]int{rapid.IntRange(1, 3).Draw(t, "leadd")}, s...)
			}
			c.Dims = s
			c.DimsNil = len(s) == 0 && rapid.Bool().Draw(t, "bnil")
			if len(s) > 0 && rapid.IntRange(0, 3).Draw(t, "bperturb") == 0 {
				c.Dims[rapid.IntRange(0, len(s)-1).Draw(t, "bk")] += rapid.SampledFrom([]int{-1, 1}).Draw(t, "bd")
			}
		} else {
			c.Dims, c.DimsNil = drawHostileDims(t, c.Recv)
		}
	}, func(x tensor.Tensor, c C09Case) outcome { return tOut(x.Broadcast(c.dims())) },
		func(c C09Case) expect {
			r, err := nc.Broadcast(refT(c.Recv), c.Dims)
			return expect{valid: err == nil, shape: r.Shape, checkShape: true}
		})
	for _, u := range []string{"Scale", "Pow", "Exp", "Log", "Sin", "Cos", "Tan", "Sinh", "Cosh", "Tanh"} {
		u := u
		method(u, func(t *rapid.T, c *C09Case) { c.F = []float64{float64(hInt(t, "f"))} },
			func(x tensor.Tensor, c C09Case) outcome {
				var y tensor.Tensor
				switch u {
				case "Scale":
					y = x.Scale(c.f(0))
				case "Pow":
					y = x.Pow(c.f(0))
				case "Exp":
					y = x.Exp()
				case "Log":
					y = x.Log()
				case "Sin":
					y = x.Sin()
				case "Cos":
					y = x.Cos()
				case "Tan":
					y = x.Tan()
				case "Sinh":
					y = x.Sinh()
				case "Cosh":
					y = x.Cosh()
				default:
					y = x.Tanh()
				}
				return outcome{tensor: y, isTensor: true}
			}, sameShape)
	}
	binGen := func(t *rapid.T, c *C09Case) { c.T = []TArg{drawOtherOrSame(t, c.Recv)} }
	binMethod := func(name string, call func(x, u tensor.Tensor) (tensor.Tensor, error), rel func(a, b []int) ([]int, error)) {
		method(name, binGen, func(x tensor.Tensor, c C09Case) outcome { return tOut(call(x, c.arg(0, x))) },
			func(c C09Case) expect { return binarySpec(c, rel) })
	}
	binMethod("Eq", func(x, u tensor.Tensor) (tensor.Tensor, error) { return x.Eq(u) }, sameShapeRel)
	binMethod("Ne", func(x, u tensor.Tensor) (tensor.Tensor, error) { return x.Ne(u) }, sameShapeRel)
	binMethod("Gt", func(x, u tensor.Tensor) (tensor.Tensor, error) { return x.Gt(u) }, sameShapeRel)
	binMethod("Ge", func(x, u tensor.Tensor) (tensor.Tensor, error) { return x.Ge(u) }, sameShapeRel)
	binMethod("Lt", func(x, u tensor.Tensor) (tensor.Tensor, error) { return x.Lt(u) }, sameShapeRel)
	binMethod("Le", func(x, u tensor.Tensor) (tensor.Tensor, error) { return x.Le(u) }, sameShapeRel)
	binMethod("ElMax", func(x, u tensor.Tensor) (tensor.Tensor, error) { return x.ElMax(u) }, sameShapeRel)
	binMethod("ElMin", func(x, u tensor.Tensor) (tensor.Tensor, error) { return x.ElMin(u) }, sameShapeRel)
	binMethod("Add", func(x, u tensor.Tensor) (tensor.Tensor, error) { return x.Add(u) }, ref.BroadcastShape)
	binMethod("Sub", func(x, u tensor.Tensor) (tensor.Tensor, error) { return x.Sub(u) }, ref.BroadcastShape)
	binMethod("Mul", func(x, u tensor.Tensor) (tensor.Tensor, error) { return x.Mul(u) }, ref.BroadcastShape)
	binMethod("Div", func(x, u tensor.Tensor) (tensor.Tensor, error) { return x.Div(u) }, ref.BroadcastShape)
	method("Dot", func(t *rapid.T, c *C09Case) {
		binGen(t, c)
		if len(c.Recv) > 0 && c.T[0].Kind == 0 && len(c.T[0].Shape) > 0 && rapid.Bool().Draw(t, "fixlast") {
			c.T[0].Shape[len(c.T[0].Shape)-1] = c.Recv[len(c.Recv)-1]
		}
	}, func(x tensor.Tensor, c C09Case) outcome { return tOut(x.Dot(c.arg(0, x))) },
		func(c C09Case) expect { return binarySpec(c, dotRel) })
	method("MatMul", func(t *rapid.T, c *C09Case) {
		binGen(t, c)
		if len(c.Recv) > 1 && c.T[0].Kind == 0 && len(c.T[0].Shape) > 1 && rapid.Bool().Draw(t, "fixinner") {
			s := c.T[0].Shape
			s[len(s)-2] = c.Recv[len(c.Recv)-1]
		}
	}, func(x tensor.Tensor, c C09Case) outcome { return tOut(x.MatMul(c.arg(0, x))) },
		func(c C09Case) expect { return binarySpec(c, matmulRel) })
	method("Equals", binGen, func(x tensor.Tensor, c C09Case) outcome {
		b, err := x.Equals(c.arg(0, x))
		return outcome{hasErr: true, err: err, zero: !b}
	}, func(c C09Case) expect {
		e := binarySpec(c, sameShapeRel)
		e.checkShape = false
		return e
	})
	method("GradContext", nil, func(x tensor.Tensor, c C09Case) outcome {
		if x.GradContext() == nil {
			return outcome{note: "BAD GradContext() = nil"}
		}
		return plain(nil)
	}, always)
	method("ResetGradContext", func(t *rapid.T, c *C09Case) { c.K[0] = rapid.IntRange(0, 1).Draw(t, "b") },
		func(x tensor.Tensor, c C09Case) outcome {
			x.ResetGradContext(c.k(0) == 1)
			if x.Gradient() != nil {
				return outcome{note: "BAD gradient after ResetGradContext"}
			}
			return plain(nil)
		}, always)
	method("Gradient", func(t *rapid.T, c *C09Case) { c.K[0] = rapid.IntRange(0, 1).Draw(t, "bp") },
		func(x tensor.Tensor, c C09Case) outcome {
			if c.k(0) == 1 {
				if err := tensor.BackPropagate(x); err != nil {
					return outcome{note: "BAD BackPropagate error " + err.Error()}
				}
			}
			g := x.Gradient()
			want := c.k(0) == 1 && c.k(9) == 1
			if (g != nil) != want {
				return outcome{note: fmt.Sprintf("BAD Gradient() non-nil = %v, expected %v", g != nil, want)}
			}
			return plain(nil)
		}, always)

	addComponentEntries()
}

func divisors(n int) []int {
	var o []int
	for d := 1; d <= n; d++ {
		if n%d == 0 {
			o = append(o, d)
		}
	}
	return o
}

/* ---------- component entry points ---------- */

// misbehaving initializers for FC
type initKind int

func (k initKind) Init(shape []int) (tensor.Tensor, error) {
	switch k {
	case 1:
		return nil, nil
	case 2:
		return tensor.Zeros(nil, nil)
	case 3:
		return tensor.Zeros([]int{1, 1}, nil)
	case 4:
		return tensor.Zeros([]int{shape[0] + 1}, nil)
	case 5:
		return nil, errors.New("initializer failed")
	}
	return tensor.Full(shape, 0.5, &tensor.Config{Device: tensor.CPU, GradTrack: true})
}

// fcInit: 0 absent (default), 1..5 misbehaving, 6 well-behaved custom, 7 explicit nil
func fcInitializers(w, b int) map[string]layers.Initializer {
	if w == 0 && b == 0 {
		return nil
	}
	m := map[string]layers.Initializer{}
	put := func(key string, k int) {
		switch {
		case k == 0:
		case k == 7:
			m[key] = nil
		case k == 6:
			m[key] = initKind(0)
		default:
			m[key] = initKind(k)
		}
	}
	put("Weight", w)
	put("Bias", b)
	return m
}

func addComponentEntries() {
	compT := func(t *rapid.T, near []int) TArg {
		if rapid.IntRange(0, 9).Draw(t, "nilt") == 0 {
			return TArg{Kind: 1}
		}
		return TArg{Kind: 0, Shape: perturbShape(t, near), Life: drawLife(t)}
	}
	/* ----- FC ----- */
	addEntry(c09Entry{name: "layers.NewFC",
		gen: func(t *rapid.T, c *C09Case) {
			c.K = []int{rapid.IntRange(0, 4).Draw(t, "nilconf"), rapid.IntRange(0, 7).Draw(t, "winit"), rapid.IntRange(0, 7).Draw(t, "binit")}
			if rapid.Bool().Draw(t, "plain") {
				c.K[1], c.K[2] = 0, 0
			}
			c.Ints = []int{hInt(t, "inputs"), hInt(t, "outputs")}
			if rapid.Bool().Draw(t, "posio") {
				c.Ints = []int{rapid.IntRange(1, 4).Draw(t, "in"), rapid.IntRange(1, 4).Draw(t, "out")}
			}
		},
		call: func(c C09Case) outcome {
			var conf *layers.FCConfig
			if c.k(0) != 0 {
				conf = &layers.FCConfig{Inputs: c.i(0), Outputs: c.i(1), Initializers: fcInitializers(c.k(1), c.k(2))}
			}
			fc, err := layers.NewFC(conf)
			o := outcome{hasErr: true, err: err, zero: fc == nil}
			if err == nil && fc != nil {
				ws := fc.Weights()
				if len(ws) != 2 || ws[0].Value == nil || ws[1].Value == nil || *ws[0].Value == nil || *ws[1].Value == nil {
					o.note = "BAD Weights() of a constructed FC"
				} else if s := (*ws[0].Value).Shape(); len(s) != 1 || s[0] != c.i(1) {
					o.note = fmt.Sprintf("BAD weight shape %v for Outputs %d", s, c.i(1))
				}
			}
			return o
		},
		spec: func(c C09Case) expect {
			ok := c.k(0) != 0 && c.i(0) > 0 && c.i(1) > 0
			for _, k := range []int{c.k(1), c.k(2)} {
				if k != 0 && k != 6 {
					ok = false
				}
			}
			return expect{valid: ok}
		}})
	addEntry(c09Entry{name: "FC.Forward",
		gen: func(t *rapid.T, c *C09Case) {
			c.Ints = []int{rapid.IntRange(1, 4).Draw(t, "in"), rapid.IntRange(1, 4).Draw(t, "out")}
			n := rapid.SampledFrom([]int{0, 1, 1, 1, 1, 2}).Draw(t, "nargs")
			for i := 0; i < n; i++ {
				c.T = append(c.T, compT(t, []int{rapid.IntRange(1, 4).Draw(t, "batch"), c.Ints[0]}))
			}
		},
		call: func(c C09Case) outcome {
			conf := &layers.FCConfig{Inputs: c.i(0), Outputs: c.i(1)}
			fc, err := layers.NewFC(conf)
			if err != nil {
				panic("harness: " + err.Error())
			}
			// the caller reuses its config struct: the layer is configured already
			conf.Inputs, conf.Outputs, conf.Initializers = -1, c.i(0)+c.i(1), nil
			evid.Class("C09.config_struct_rewritten_after_construction")
			var xs []tensor.Tensor
			for _, a := range c.T {
				xs = append(xs, a.build())
			}
			return tOut(fc.Forward(xs...))
		},
		spec: func(c C09Case) expect {
			if len(c.T) != 1 || c.T[0].Kind != 0 || len(c.T[0].Shape) != 2 {
				return expect{valid: false}
			}
			return expect{valid: true, shape: []int{c.T[0].Shape[0], c.i(1)}, checkShape: true}
		}})
	addEntry(c09Entry{name: "Input.Forward",
		gen: func(t *rapid.T, c *C09Case) {
			c.K = []int{rapid.IntRange(0, 2).Draw(t, "seedfunc")}
			n := rapid.SampledFrom([]int{0, 0, 0, 1, 2}).Draw(t, "nargs")
			for i := 0; i < n; i++ {
				c.T = append(c.T, compT(t, []int{2}))
			}
		},
		call: func(c C09Case) outcome {
			in := layers.NewInput()
			switch c.k(0) {
			case 1:
				in.SeedFunc = func() tensor.Tensor { return mkTensor([]int{2, 3}, false) }
			case 2:
				in.SeedFunc = func() tensor.Tensor { return nil }
			}
			var xs []tensor.Tensor
			for _, a := range c.T {
				xs = append(xs, a.build())
			}
			return tOut(in.Forward(xs...))
		},
		spec: func(c C09Case) expect {
			if len(c.T) != 0 || c.k(0) == 0 {
				return expect{valid: false}
			}
			if c.k(0) == 2 {
				// what Forward returns when SeedFunc yields nil is not documented
				return expect{valid: true, unspecified: true, nilOK: true}
			}
			return expect{valid: true, shape: []int{2, 3}, checkShape: true}
		}})
	/* ----- activations ----- */
	actGen := func(t *rapid.T, c *C09Case) {
		n := rapid.SampledFrom([]int{0, 1, 1, 1, 1, 2}).Draw(t, "nargs")
		for i := 0; i < n; i++ {
			c.T = append(c.T, compT(t, drawRecv(t)))
		}
		c.Ints = []int{hInt(t, "dim")}
		c.K = []int{rapid.IntRange(0, 2).Draw(t, "nilconf")}
	}
	act := func(name string, mk func(c C09Case) (func(...tensor.Tensor) (tensor.Tensor, error), error), extra func(c C09Case) bool) {
		addEntry(c09Entry{name: name + ".Forward", gen: actGen,
			call: func(c C09Case) outcome {
				fw, err := mk(c)
				if err != nil {
					return outcome{hasErr: true, err: err, isTensor: true, note: "ctor"}
				}
				var xs []tensor.Tensor
				for _, a := range c.T {
					xs = append(xs, a.build())
				}
				return tOut(fw(xs...))
			},
			spec: func(c C09Case) expect {
				if len(c.T) != 1 || c.T[0].Kind != 0 || !extra(c) {
					return expect{valid: false}
				}
				return expect{valid: true, shape: ref.Cp(c.T[0].Shape), checkShape: true}
			}})
	}
	yes := func(C09Case) bool { return true }
	act("Relu", func(c C09Case) (func(...tensor.Tensor) (tensor.Tensor, error), error) { return activations.NewRelu().Forward, nil }, yes)
	act("Sigmoid", func(c C09Case) (func(...tensor.Tensor) (tensor.Tensor, error), error) { return activations.NewSigmoid().Forward, nil }, yes)
	act("Tanh", func(c C09Case) (func(...tensor.Tensor) (tensor.Tensor, error), error) { return activations.NewTanh().Forward, nil }, yes)
	act("LeakyRelu", func(c C09Case) (func(...tensor.Tensor) (tensor.Tensor, error), error) {
		var conf *activations.LeakyReluConfig
		if c.k(0) != 0 {
			conf = &activations.LeakyReluConfig{M: float64(c.i(0))}
		}
		l := activations.NewLeakyRelu(conf)
		if conf != nil {
			conf.M = math.NaN() // the caller reuses its config struct: the layer is configured already
		}
		return l.Forward, nil
	}, yes)
	act("Softmax", func(c C09Case) (func(...tensor.Tensor) (tensor.Tensor, error), error) {
		var conf *activations.SoftmaxConfig
		if c.k(0) != 0 {
			conf = &activations.SoftmaxConfig{Dim: c.i(0)}
		}
		sm, err := activations.NewSoftmax(conf)
		if err != nil {
			if sm != nil {
				panic("harness: NewSoftmax returned both a value and an error")
			}
			return nil, err
		}
		if conf != nil {
			// the caller reuses its config struct (for a construction that would be rejected, or
			// for another dimension): the layer is configured already
			switch {
			case c.k(0) == 1:
				conf.Dim = -1
			case conf.Dim != 0:
				conf.Dim = 0
			default:
				conf.Dim = 1
			}
			evid.Class("C09.config_struct_rewritten_after_construction")
		}
		return sm.Forward, nil
	}, func(c C09Case) bool {
		dim := 0
		if c.k(0) != 0 {
			dim = c.i(0)
		}
		return dim >= 0 && len(c.T) == 1 && len(c.T[0].Shape) > dim
	})
	/* ----- losses and metric ----- */
	pairGen := func(rank int) func(t *rapid.T, c *C09Case) {
		return func(t *rapid.T, c *C09Case) {
			s := make([]int, rank)
			for i := range s {
				s[i] = rapid.IntRange(1, 4).Draw(t, "d")
			}
			c.T = []TArg{compT(t, s), compT(t, s)}
			if c.T[0].Kind == 0 && c.T[1].Kind == 0 && rapid.IntRange(0, 7).Draw(t, "sameobject") == 0 {
				c.T[1] = TArg{Kind: 3, Shape: ref.Cp(c.T[0].Shape)}
			}
		}
	}
	pairSpec := func(rank int) func(c C09Case) expect {
		return func(c C09Case) expect {
			a, b := c.t(0), c.t(1)
			ok := a.isLib() && b.isLib() && len(a.Shape) == rank && len(b.Shape) == rank && ref.EqShape(a.Shape, b.Shape)
			return expect{valid: ok, shape: []int{}, checkShape: true}
		}
	}
	addEntry(c09Entry{name: "MSE.Compute", gen: pairGen(1), spec: pairSpec(1),
		call: func(c C09Case) outcome { p := c.t(0).build(); return tOut(losses.NewMSE().Compute(p, c.arg(1, p))) }})
	addEntry(c09Entry{name: "BCE.Compute", gen: pairGen(1), spec: pairSpec(1),
		call: func(c C09Case) outcome { p := c.t(0).build(); return tOut(losses.NewBCE().Compute(p, c.arg(1, p))) }})
	addEntry(c09Entry{name: "CE.Compute", gen: pairGen(2), spec: pairSpec(2),
		call: func(c C09Case) outcome { p := c.t(0).build(); return tOut(losses.NewCE().Compute(p, c.arg(1, p))) }})
	addEntry(c09Entry{name: "Accuracy.Accumulate", gen: pairGen(1),
		call: func(c C09Case) outcome {
			m := metrics.NewAccuracy()
			p := c.t(0).build()
			err := m.Accumulate(p, c.arg(1, p))
			r, rerr := m.Result()
			o := outcome{hasErr: true, err: err, zero: true}
			if rerr != nil || r < 0 || r > 1 || (err != nil && r != 0) {
				o.note = fmt.Sprintf("BAD Result() = %v, %v after Accumulate error %v", r, rerr, err)
			}
			return o
		},
		spec: func(c C09Case) expect { e := pairSpec(1)(c); e.checkShape = false; return e }})
	/* ----- optimizer ----- */
	addEntry(c09Entry{name: "SGD.Update",
		gen: func(t *rapid.T, c *C09Case) {
			c.K = []int{rapid.IntRange(0, 3).Draw(t, "nilconf"), rapid.IntRange(0, 5).Draw(t, "ptr")}
			c.Ints = []int{hInt(t, "lr")}
			c.T = []TArg{{Kind: 0, Shape: drawRecv(t), Grad: rapid.IntRange(0, 2).Draw(t, "grad") > 0}}
		},
		call: func(c C09Case) outcome {
			var conf *optimizers.SGDConfig
			if c.k(0) != 0 {
				conf = &optimizers.SGDConfig{LearningRate: float64(c.i(0))}
			}
			opt := optimizers.NewSGD(conf)
			switch c.k(1) {
			case 0:
				return outcome{hasErr: true, err: opt.Update(nil), zero: true}
			case 1:
				var w tensor.Tensor
				err := opt.Update(&w)
				return outcome{hasErr: true, err: err, zero: w == nil}
			}
			w := c.t(0).build()
			if !c.t(0).Grad && c.k(1)%2 == 0 {
				w = mkTensor(c.t(0).Shape, true) // a tracked leaf nothing was back-propagated to yet
			}
			old := w
			err := opt.Update(&w)
			o := outcome{hasErr: true, err: err, tensor: w, isTensor: err == nil, zero: true}
			if err != nil && w != old {
				o.note = "BAD Update replaced the tensor although it returned an error"
			}
			if err != nil && !c.t(0).Grad && c.k(1)%2 == 0 {
				// the rejected tensor is still the tracked leaf it was
				if e := tensor.BackPropagate(old.Scale(2)); e != nil || old.Gradient() == nil {
					o.note = fmt.Sprintf("BAD after a rejected Update the tracked tensor no longer receives a gradient (BackPropagate: %v)", e)
				}
			}
			return o
		},
		spec: func(c C09Case) expect {
			if c.k(1) <= 1 || !c.t(0).Grad {
				return expect{valid: false}
			}
			return expect{valid: true, shape: ref.Cp(c.t(0).Shape), checkShape: true}
		}})
	/* ----- initializers ----- */
	initGen := func(t *rapid.T, c *C09Case) {
		c.K = []int{rapid.IntRange(0, 3).Draw(t, "nilconf")}
		c.Ints = []int{hInt(t, "p0"), hInt(t, "p1")}
		if rapid.Bool().Draw(t, "validparams") {
			c.Ints = []int{rapid.IntRange(-2, 2).Draw(t, "lo"), rapid.IntRange(3, 6).Draw(t, "hi")}
		}
		c.Dims, c.DimsNil = drawHostileDims(t, drawRecv(t))
	}
	initEntry := func(name string, mk func(c C09Case) (layers.Initializer, error), confOK func(c C09Case) bool) {
		addEntry(c09Entry{name: "initializers." + name, gen: initGen,
			call: func(c C09Case) outcome {
				in, err := mk(c)
				if err != nil {
					return outcome{hasErr: true, err: err, isTensor: true, note: "ctor"}
				}
				return tOut(in.Init(c.dims()))
			},
			spec: func(c C09Case) expect {
				return expect{valid: confOK(c) && dimsValid(c.Dims), shape: shapeOrEmpty(c.dims()), checkShape: true}
			}})
	}
	nonNil := func(c C09Case) bool { return c.k(0) != 0 }
	initEntry("Full", func(c C09Case) (layers.Initializer, error) {
		var conf *initializers.FullConfig
		if nonNil(c) {
			conf = &initializers.FullConfig{Value: float64(c.i(0))}
		}
		return initializers.NewFull(conf), nil
	}, func(c C09Case) bool { return true })
	initEntry("Uniform", func(c C09Case) (layers.Initializer, error) {
		var conf *initializers.UniformConfig
		if nonNil(c) {
			conf = &initializers.UniformConfig{Lower: float64(c.i(0)), Upper: float64(c.i(1))}
		}
		in, err := initializers.NewUniform(conf)
		if err != nil {
			return nil, err
		}
		if conf != nil {
			conf.Lower, conf.Upper = 1, 1 // the caller reuses its config struct for a construction that would be rejected
			evid.Class("C09.config_struct_rewritten_after_construction")
		}
		return in, nil
	}, func(c C09Case) bool { return !nonNil(c) || c.i(0) < c.i(1) })
	initEntry("Normal", func(c C09Case) (layers.Initializer, error) {
		var conf *initializers.NormalConfig
		if nonNil(c) {
			conf = &initializers.NormalConfig{Mean: float64(c.i(0)), StdDev: float64(c.i(1))}
		}
		in, err := initializers.NewNormal(conf)
		if err != nil {
			return nil, err
		}
		if conf != nil {
			conf.StdDev = -1 // the caller reuses its config struct for a construction that would be rejected
			evid.Class("C09.config_struct_rewritten_after_construction")
		}
		return in, nil
	}, func(c C09Case) bool { return !nonNil(c) || c.i(1) > 0 })
	initEntry("HeUniform", func(c C09Case) (layers.Initializer, error) {
		var conf *initializers.HeUniformConfig
		if nonNil(c) {
			conf = &initializers.HeUniformConfig{FanIn: c.i(1)}
		}
		in, err := initializers.NewHeUniform(conf)
		if err != nil {
			return nil, err
		}
		if conf != nil {
			conf.FanIn = -1 // the caller reuses its config struct for a construction that would be rejected
			evid.Class("C09.config_struct_rewritten_after_construction")
		}
		return in, nil
	}, func(c C09Case) bool { return nonNil(c) && c.i(1) > 0 })
	initEntry("HeNormal", func(c C09Case) (layers.Initializer, error) {
		var conf *initializers.HeNormalConfig
		if nonNil(c) {
			conf = &initializers.HeNormalConfig{FanIn: c.i(1)}
		}
		in, err := initializers.NewHeNormal(conf)
		if err != nil {
			return nil, err
		}
		if conf != nil {
			conf.FanIn = -1 // the caller reuses its config struct for a construction that would be rejected
			evid.Class("C09.config_struct_rewritten_after_construction")
		}
		return in, nil
	}, func(c C09Case) bool { return nonNil(c) && c.i(1) > 0 })
	initEntry("XavierUniform", func(c C09Case) (layers.Initializer, error) {
		var conf *initializers.XavierUniformConfig
		if nonNil(c) {
			conf = &initializers.XavierUniformConfig{FanIn: c.i(1), FanOut: c.i(0) + 3}
		}
		in, err := initializers.NewXavierUniform(conf)
		if err != nil {
			return nil, err
		}
		if conf != nil {
			conf.FanIn, conf.FanOut = -1, -1 // the caller reuses its config struct for a construction that would be rejected
			evid.Class("C09.config_struct_rewritten_after_construction")
		}
		return in, nil
	}, func(c C09Case) bool { return nonNil(c) && c.i(1) > 0 && c.i(0)+3 > 0 })
	initEntry("XavierNormal", func(c C09Case) (layers.Initializer, error) {
		var conf *initializers.XavierNormalConfig
		if nonNil(c) {
			conf = &initializers.XavierNormalConfig{FanIn: c.i(1), FanOut: c.i(0) + 3}
		}
		in, err := initializers.NewXavierNormal(conf)
		if err != nil {
			return nil, err
		}
		if conf != nil {
			conf.FanIn, conf.FanOut = -1, -1 // the caller reuses its config struct for a construction that would be rejected
			evid.Class("C09.config_struct_rewritten_after_construction")
		}
		return in, nil
	}, func(c C09Case) bool { return nonNil(c) && c.i(1) > 0 && c.i(0)+3 > 0 })
}

/* ---------- the check ---------- */

func entryByName(name string) *c09Entry {
	for i := range c09Entries {
		if c09Entries[i].name == name {
			return &c09Entries[i]
		}
	}
	return nil
}

func genC09(t *rapid.T) C09Case {
	k := rapid.IntRange(0, len(c09Entries)-1).Draw(t, "entry")
	e := c09Entries[k]
	c := C09Case{Entry: e.name}
	e.gen(t, &c)
	if _, ok := againCalls[c.Entry]; ok && rapid.IntRange(0, 2).Draw(t, "again") == 0 {
		n := len(c.Dims) + len(c.Idx)*2
		if n > 0 {
			c.Again = 1 + rapid.IntRange(0, n-1).Draw(t, "againpos")
			c.AgainBy = rapid.SampledFrom([]int{-1, 1, 1, 2}).Draw(t, "againby")
		}
	}
	return c
}

// againCalls: entry points that take a caller-owned dims or index slice; in "again" mode the
// same receiver and the same slice objects serve two calls, the caller changing one entry in
// place in between.
var againCalls = map[string]func(x tensor.Tensor, c C09Case, dims []int, idx []tensor.Range, other tensor.Tensor) outcome{
	"Tensor.Broadcast": func(x tensor.Tensor, c C09Case, dims []int, idx []tensor.Range, o tensor.Tensor) outcome {
		return tOut(x.Broadcast(dims))
	},
	"Tensor.Reshape": func(x tensor.Tensor, c C09Case, dims []int, idx []tensor.Range, o tensor.Tensor) outcome {
		return tOut(x.Reshape(dims))
	},
	"Tensor.Slice": func(x tensor.Tensor, c C09Case, dims []int, idx []tensor.Range, o tensor.Tensor) outcome {
		return tOut(x.Slice(idx))
	},
	"Tensor.Patch": func(x tensor.Tensor, c C09Case, dims []int, idx []tensor.Range, o tensor.Tensor) outcome {
		return tOut(x.Patch(idx, o))
	},
	"tensor.Full": func(x tensor.Tensor, c C09Case, dims []int, idx []tensor.Range, o tensor.Tensor) outcome {
		return tOut(tensor.Full(dims, c.f(0), c.conf()))
	},
	"tensor.Zeros": func(x tensor.Tensor, c C09Case, dims []int, idx []tensor.Range, o tensor.Tensor) outcome {
		return tOut(tensor.Zeros(dims, c.conf()))
	},
	"tensor.Ones": func(x tensor.Tensor, c C09Case, dims []int, idx []tensor.Range, o tensor.Tensor) outcome {
		return tOut(tensor.Ones(dims, c.conf()))
	},
}

// checkC09Again runs the two-call mode.
func checkC09Again(c C09Case, e *c09Entry) *Failure {
	call := againCalls[c.Entry]
	var x, other tensor.Tensor
	if c.Recv != nil || len(c.Entry) > 7 && c.Entry[:7] == "Tensor." {
		x = recvOf(c)
	}
	if c.Entry == "Tensor.Patch" {
		other = c.t(0).build()
	}
	dims, idx := c.dims(), c.idx()
	c2 := c
	c2.Again = 0
	c2.Dims = append([]int{}, c.Dims...)
	c2.Idx = append([]ref.Range{}, c.Idx...)
	pos := c.Again - 1
	switch {
	case pos < len(c.Dims):
		if dims == nil {
			return nil
		}
		c2.Dims[pos] += c.AgainBy
	case pos < len(c.Dims)+2*len(c.Idx):
		if idx == nil {
			return nil
		}
		q := pos - len(c.Dims)
		if q%2 == 0 {
			c2.Idx[q/2].From += c.AgainBy
		} else {
			c2.Idx[q/2].To += c.AgainBy
		}
	default:
		return nil
	}
	if !wellFormed(c2) {
		return nil
	}
	var firstOut outcome
	var firstExp expect
	for round, cc := range []C09Case{c, c2} {
		if round == 1 {
			// the caller changes its own slice in place and calls again
			copy(dims, c2.Dims)
			for i := range idx {
				idx[i] = tensor.Range{From: c2.Idx[i].From, To: c2.Idx[i].To}
			}
		}
		exp := e.spec(cc)
		o, p, hung := guardedCall(func() outcome { return call(x, cc, dims, idx, other) })
		if hung {
			return failf("%s: %v", c.Entry, errHang)
		}
		if p != nil {
			return failf("%s (call %d of 2 with the same argument slices) panicked: %v", c.Entry, round+1, p)
		}
		if f := judgeC09(cc, exp, o, fmt.Sprintf(" (call %d of 2 on the same receiver with the same argument slice objects)", round+1)); f != nil {
			return f
		}
		if round == 0 {
			// the call did not write to the caller's slices
			for i := range dims {
				if dims[i] != c.Dims[i] {
					return failf("%s wrote to the caller's dims slice: %v became %v", c.Entry, c.Dims, dims)
				}
			}
			for i := range idx {
				if idx[i].From != c.Idx[i].From || idx[i].To != c.Idx[i].To {
					return failf("%s wrote to the caller's index slice: %v became %v", c.Entry, c.Idx, idx)
				}
			}
			firstOut, firstExp = o, exp
		} else if firstOut.isTensor && firstOut.tensor != nil && firstOut.err == nil {
			// the result of the first call is still the well-formed tensor it was, although the
			// caller changed its slice and called again
			ex, p, hung := guardedCall(func() outcome {
				if firstExp.checkShape && firstExp.valid {
					s, _, err := lib.Read(firstOut.tensor)
					if err != nil {
						return outcome{note: "not readable through At: " + err.Error()}
					}
					if !ref.EqShape(s, firstExp.shape) {
						return outcome{note: fmt.Sprintf("shape %v, was %v", s, firstExp.shape)}
					}
				}
				return outcome{note: exerciseResult(firstOut.tensor, x)}
			})
			if hung {
				return failf("%s: a call on the first result: %v", c.Entry, errHang)
			}
			if p != nil {
				return failf("%s: after the caller changed its argument slice and called again, a call on the FIRST result panicked: %v", c.Entry, p)
			}
			if ex.note != "" {
				return failf("%s: after the caller changed its argument slice and called again, the FIRST result is no longer well-formed: %s", c.Entry, ex.note)
			}
		}
	}
	evid.Eval()
	evid.Class("C09.entry=" + c.Entry)
	evid.Class("C09.two_calls_same_slices")
	evid.NonTrivial(c)
	return nil
}

func wellFormed(c C09Case) bool {
	if !ref.ValidDims(c.Recv) || len(c.Recv) > 5 || ref.Prod(c.Recv) > 4096 {
		return false
	}
	for _, a := range c.T {
		if a.Kind != 1 && (!ref.ValidDims(a.Shape) || len(a.Shape) > 6 || ref.Prod(a.Shape) > 4096) {
			return false
		}
	}
	if len(c.Dims) > 8 || len(c.Idx) > 8 || len(c.Ints) > 8 || c.Depth < 0 || c.Depth > 4 || len(c.Data) > 4096 {
		return false
	}
	n := 1
	for _, d := range c.Dims {
		if d > 8 {
			return false
		}
		if d > 0 {
			n *= d
		}
	}
	return n <= 1<<16
}

func checkC09(c C09Case) *Failure {
	e := entryByName(c.Entry)
	if e == nil || !wellFormed(c) {
		return nil
	}
	if c.Again > 0 {
		if _, ok := againCalls[c.Entry]; !ok {
			return nil
		}
		return checkC09Again(c, e)
	}
	exp := e.spec(c)
	o, p, hung := guardedCall(func() outcome { return e.call(c) })
	if hung {
		return failf("%s: %v", c.Entry, errHang)
	}
	if p != nil {
		if s, ok := p.(string); ok && len(s) > 8 && s[:8] == "harness:" {
			return nil // the case is not executable (malformed replay)
		}
		return failf("%s panicked: %v", c.Entry, p)
	}
	if len(o.note) >= 3 && o.note[:3] == "BAD" {
		return failf("%s: %s", c.Entry, o.note[4:])
	}
	if f := judgeC09(c, exp, o, ""); f != nil {
		return f
	}
	if o.isTensor && o.tensor != nil && o.err == nil {
		// a result is a tensor like any other: the calls every tensor supports work on it
		ex, p, hung := guardedCall(func() outcome { return outcome{note: exerciseResult(o.tensor, o.recv)} })
		if hung {
			return failf("%s: a call on its result: %v", c.Entry, errHang)
		}
		if p != nil {
			return failf("%s returned a result on which a further call panicked: %v", c.Entry, p)
		}
		if ex.note != "" {
			return failf("%s returned a result that is not well-formed: %s", c.Entry, ex.note)
		}
	}
	gotErr := o.err != nil
	evid.Eval()
	evid.Class("C09.entry=" + c.Entry)
	if gotErr {
		evid.Class("C09.rejected")
	} else {
		evid.Class("C09.accepted")
	}
	if c09NearBoundary(c, exp) {
		evid.Class("C09.near_boundary")
		evid.NonTrivial(c)
	}
	return nil
}

// exerciseResult makes the calls every tensor supports on a returned tensor y, ending with a
// back-propagation from it; recv (may be nil) is the receiver y was computed from.
func exerciseResult(y, recv tensor.Tensor) string {
	s := y.Shape()
	if y.NElems() != ref.Prod(s) {
		return fmt.Sprintf("NElems() = %d for Shape() = %v", y.NElems(), s)
	}
	if _, err := y.At(make([]int, len(s))...); err != nil {
		return fmt.Sprintf("At(first element) failed: %v", err)
	}
	if y.GradContext() == nil {
		return "GradContext() = nil"
	}
	_ = y.Gradient()
	_ = y.Sum()
	z := y.Scale(1)
	if z == nil {
		return "Scale(1) = nil"
	}
	if _, err := y.Add(y); err != nil {
		return fmt.Sprintf("Add with itself failed: %v", err)
	}
	if _, err := y.Slice(nil); err != nil {
		return fmt.Sprintf("Slice(nil) failed: %v", err)
	}
	if _, err := y.Eq(y); err != nil {
		return fmt.Sprintf("Eq with itself failed: %v", err)
	}
	if err := tensor.BackPropagate(z); err != nil {
		return fmt.Sprintf("BackPropagate from a value computed from it failed: %v", err)
	}
	for _, x := range []tensor.Tensor{y, recv} {
		if x == nil {
			continue
		}
		if g := x.Gradient(); g != nil && !ref.EqShape(g.Shape(), x.Shape()) {
			return fmt.Sprintf("after BackPropagate a tensor of shape %v has a gradient of shape %v", x.Shape(), g.Shape())
		}
	}
	return ""
}

// judgeC09 compares one outcome with the specification.
func judgeC09(c C09Case, exp expect, o outcome, ctx string) *Failure {
	gotErr := o.err != nil
	if o.hasErr {
		if !exp.unspecified && gotErr == exp.valid {
			if gotErr {
				return failf("%s%s returned an error although the documented precondition holds: %v", c.Entry, ctx, o.err)
			}
			return failf("%s%s returned no error although the documented precondition is violated", c.Entry, ctx)
		}
		if gotErr {
			if o.isTensor && o.tensor != nil {
				return failf("%s returned both an error and a result", c.Entry)
			}
			if !o.isTensor && !o.zero {
				return failf("%s returned an error and a non-zero result", c.Entry)
			}
		}
	} else if !exp.valid {
		return failf("harness: entry %s has no error result but the specification says invalid", c.Entry)
	}
	if !gotErr && o.isTensor {
		if o.tensor == nil {
			if !exp.nilOK {
				return failf("%s returned neither a result nor an error", c.Entry)
			}
		} else if exp.checkShape && exp.valid {
			s, _, err := lib.Read(o.tensor)
			if err != nil {
				return failf("%s: result not readable through At: %v", c.Entry, err)
			}
			if !ref.EqShape(s, exp.shape) {
				return failf("%s: result shape %v, defined shape %v", c.Entry, s, exp.shape)
			}
			if o.tensor.NElems() != ref.Prod(exp.shape) {
				return failf("%s: NElems %d for shape %v", c.Entry, o.tensor.NElems(), exp.shape)
			}
		}
	}
	return nil
}

// c09NearBoundary is the non-triviality rule: the call is rejected (some rule violated) or it
// carries index / dim arguments that touch the end of their valid range.
func c09NearBoundary(c C09Case, exp expect) bool {
	if !exp.valid {
		return true
	}
	for i, r := range c.Idx {
		if i < len(c.Recv) && r.To == c.Recv[i] && r.To != 0 {
			return true
		}
	}
	for i, v := range c.Ints {
		if i < len(c.Recv) && v == c.Recv[i]-1 {
			return true
		}
	}
	return len(c.Ints) == 1 && (c.Ints[0] == len(c.Recv) || c.Ints[0] == len(c.Recv)-1)
}

func TestC09_total(t *testing.T) {
	run(t, 30000, func(rt *rapid.T) {
		c := genC09(rt)
		if f := guard(func() *Failure { return checkC09(c) }); f != nil {
			fail(rt, "C09/total", c, f)
		}
	})
}
