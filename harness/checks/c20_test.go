package checks

import (
	"encoding/json"
	"fmt"
	"os"
	"path/filepath"
	"runtime"
	"sync"
	"testing"

	"github.com/sahandsafizadeh/qeep/component/layers"
	"github.com/sahandsafizadeh/qeep/component/layers/activations"
	"github.com/sahandsafizadeh/qeep/component/losses"
	"github.com/sahandsafizadeh/qeep/tensor"
	"pgregory.net/rapid"

	"qeepverif/evid"
	"qeepverif/lib"
	"qeepverif/prog"
	"qeepverif/ref"
)

// GStep is one step of a goroutine's program. Value ids: shared leaves first, then the
// goroutine's private leaves, then its own results in order.
//   op    a tensor operation (Node)
//   fc    Forward of the shared FC layer on value X (shape [b, F])
//   act   activation Act on value X
//   loss  MSE of value X (rank 1) against itself scaled
//   read  Shape / NElems / At / Sum / Mean / Var on value X (no new value)
//   rand  RandU / RandN of the shape of value X (new value, not compared)
//   ctor  a constructor call: Eye(X) for X in 1..24, or Full/Zeros/Ones of the shape of value -X-1
//   own   X.Scale(1) turned into a fresh tracked leaf by ResetGradContext(true): a private
//         parameter initialised from (possibly shared) values
//   many  a dozen calls in a row: Act "bcast" = value X expanded to 12 different shapes ([j, ...X's
//         shape], j = 1..12; the last result is the new value); Act "bce" / "ce" = 12 evaluations of
//         the world's shared BCE / CE loss object on private tensors of one fixed shape (the last
//         loss is the new value)
//   bp    BackPropagate(value X); X depends on no shared tracked tensor
type GStep struct {
	Kind  string     `json:"kind"`
	Node  *prog.Node `json:"node,omitempty"`
	X     int        `json:"x,omitempty"`
	Act   string     `json:"act,omitempty"`
	Yield bool       `json:"yield,omitempty"` // runtime.Gosched() before the step
}

type GProg struct {
	Private []prog.Leaf `json:"private"`
	Steps   []GStep     `json:"steps"`
}

type C20Case struct {
	Shared []prog.Leaf `json:"shared"`
	// Derived: operations applied by the main goroutine to the shared leaves (and earlier
	// derived values) before the goroutines start; their results join the shared pool, so
	// shared tensors are not only fresh constructor results
	Derived []prog.Node `json:"derived,omitempty"`
	F      int         `json:"f"`
	O      int         `json:"o"`
	W      []float64   `json:"w"`
	B      []float64   `json:"b"`
	G      []GProg     `json:"g"`
}

func init() { register("C20/concurrent", checkC20) }

type gModel struct {
	shapes  [][]int
	tainted []bool // depends on a shared tracked tensor (or the shared layer)
	tracked []bool
	random  []bool
}

func genC20(t *rapid.T) C20Case {
	c := C20Case{F: rapid.IntRange(1, 3).Draw(t, "f"), O: rapid.IntRange(1, 3).Draw(t, "o")}
	c.W = prog.DrawValsMode(t, c.O, 0, "small")
	c.B = prog.DrawValsMode(t, c.O, 1, "small")
	c20Shapes := append(append([][]int{}, prog.HistShapes...), []int{2, 2, 2, 2}, []int{1, 2, 2, 1, 2}, []int{2, 1, 2, 2}, []int{24, 24}, []int{1100}, []int{40, 30})
	ns := rapid.IntRange(2, 5).Draw(t, "nshared")
	for i := 0; i < ns; i++ {
		s := rapid.SampledFrom(c20Shapes).Draw(t, "shape")
		if i == 0 {
			s = []int{2, c.F}
		}
		c.Shared = append(c.Shared, prog.Leaf{Shape: ref.Cp(s), Vals: prog.DrawValsMode(t, ref.Prod(s), i, "small"), Tracked: i > 0 && rapid.Bool().Draw(t, "tracked")})
	}
	// derived shared tensors
	base := &gModel{}
	for _, l := range c.Shared {
		base.shapes = append(base.shapes, l.Shape)
		base.tainted = append(base.tainted, l.Tracked)
		base.tracked = append(base.tracked, l.Tracked)
		base.random = append(base.random, false)
	}
	nd := rapid.IntRange(0, 4).Draw(t, "nderived")
	for len(c.Derived) < nd {
		n, ok := prog.DrawOp(t, base.shapes, seq(len(base.shapes)), prog.AllOps)
		var rs []int
		var err error
		if ok {
			rs, err = prog.ResultShape(n, base.shapes)
		}
		if !ok || err != nil || ref.Prod(rs) > 2400 || len(rs) > 5 {
			n = prog.Node{Op: "sumalong", In: []int{n.In[0]}, I: 0}
			rs, err = prog.ResultShape(n, base.shapes)
			if err != nil {
				n = prog.Node{Op: "sin", In: []int{n.In[0]}}
				rs, _ = prog.ResultShape(n, base.shapes)
			}
		}
		ta, tr := false, false
		for _, o := range n.In {
			ta, tr = ta || base.tainted[o], tr || base.tracked[o]
		}
		if prog.IsCmp(n.Op) {
			tr = false
		}
		c.Derived = append(c.Derived, n)
		base.shapes = append(base.shapes, rs)
		base.tainted = append(base.tainted, ta)
		base.tracked = append(base.tracked, tr)
		base.random = append(base.random, false)
	}
	nShared := len(base.shapes)
	ng := rapid.IntRange(2, 8).Draw(t, "goroutines")
	for g := 0; g < ng; g++ {
		var gp GProg
		m := &gModel{}
		m.shapes = append(m.shapes, base.shapes...)
		m.tainted = append(m.tainted, base.tainted...)
		m.tracked = append(m.tracked, base.tracked...)
		m.random = append(m.random, base.random...)
		np := rapid.IntRange(0, 2).Draw(t, "nprivate")
		for i := 0; i < np; i++ {
			s := rapid.SampledFrom(prog.HistShapes).Draw(t, "pshape")
			gp.Private = append(gp.Private, prog.Leaf{Shape: ref.Cp(s), Vals: prog.DrawValsMode(t, ref.Prod(s), 3+i, "small"), Tracked: true})
			m.shapes = append(m.shapes, s)
			m.tainted = append(m.tainted, false)
			m.tracked = append(m.tracked, true)
			m.random = append(m.random, false)
		}
		nsteps := rapid.IntRange(2, 14).Draw(t, "nsteps")
		for len(gp.Steps) < nsteps {
			st := GStep{Yield: rapid.IntRange(0, 3).Draw(t, "yield") == 0}
			all := seq(len(m.shapes))
			add := func(shape []int, tainted, tracked, random bool) {
				m.shapes = append(m.shapes, shape)
				m.tainted = append(m.tainted, tainted)
				m.tracked = append(m.tracked, tracked)
				m.random = append(m.random, random)
			}
			switch k := rapid.IntRange(0, 15).Draw(t, "kind"); {
			case k == 15:
				st.Kind = "many"
				st.Act = rapid.SampledFrom([]string{"bcast", "bcast", "bce", "ce"}).Draw(t, "manyact")
				if st.Act == "bcast" {
					var fit []int
					for i, s := range m.shapes {
						if len(s) <= 4 && ref.Prod(s) <= 64 {
							fit = append(fit, i)
						}
					}
					if len(fit) == 0 {
						continue
					}
					st.X = rapid.SampledFrom(fit).Draw(t, "manyx")
					add(append([]int{12}, m.shapes[st.X]...), m.tainted[st.X], m.tracked[st.X], m.random[st.X])
				} else {
					add([]int{}, false, true, false)
				}
			case k == 13:
				x := rapid.SampledFrom(all).Draw(t, "ownx")
				st.Kind, st.X = "own", x
				add(m.shapes[x], false, true, m.random[x])
			case k == 14:
				// a private tracked value with three consumers whose contributions do not sum
				// exactly in every order, back-propagated at once (ends the program like any bp)
				var cand []int
				for i := nShared; i < len(m.shapes); i++ {
					if !m.tainted[i] && m.tracked[i] && !m.random[i] {
						cand = append(cand, i)
					}
				}
				if len(cand) == 0 {
					continue
				}
				x := rapid.SampledFrom(cand).Draw(t, "fanx")
				b := len(m.shapes)
				for _, f := range []float64{0.1, 0.2, 0.3} {
					gp.Steps = append(gp.Steps, GStep{Kind: "op", Node: &prog.Node{Op: "scale", In: []int{x}, F: f}})
					add(m.shapes[x], false, true, false)
				}
				gp.Steps = append(gp.Steps, GStep{Kind: "op", Node: &prog.Node{Op: "add", In: []int{b, b + 1}}, Yield: st.Yield})
				add(m.shapes[x], false, true, false)
				gp.Steps = append(gp.Steps, GStep{Kind: "op", Node: &prog.Node{Op: "add", In: []int{b + 3, b + 2}}})
				add(m.shapes[x], false, true, false)
				gp.Steps = append(gp.Steps, GStep{Kind: "bp", X: b + 4})
				nsteps = len(gp.Steps)
				continue
			case k == 12:
				st.Kind = "ctor"
				if rapid.Bool().Draw(t, "eye") {
					st.X = rapid.IntRange(1, 24).Draw(t, "eyen")
					add([]int{st.X, st.X}, false, false, false)
				} else {
					x := rapid.SampledFrom(all).Draw(t, "ctorx")
					st.X = -x - 1
					add(m.shapes[x], false, false, false)
				}
			case k <= 5:
				n, ok := prog.DrawOp(t, m.shapes, all, prog.AllOps)
				var rs []int
				var err error
				if ok {
					rs, err = prog.ResultShape(n, m.shapes)
				}
				if !ok || err != nil || ref.Prod(rs) > 2400 || len(rs) > 5 {
					n = prog.Node{Op: "sin", In: []int{n.In[0]}}
					rs, _ = prog.ResultShape(n, m.shapes)
				}
				ta, tr, rn := false, false, false
				for _, o := range n.In {
					ta, tr, rn = ta || m.tainted[o], tr || m.tracked[o], rn || m.random[o]
				}
				if prog.IsCmp(n.Op) {
					tr = false
				}
				st.Kind, st.Node = "op", &n
				add(rs, ta, tr, rn)
			case k == 6:
				var fit []int
				for i, s := range m.shapes {
					if len(s) == 2 && s[1] == c.F {
						fit = append(fit, i)
					}
				}
				x := rapid.SampledFrom(fit).Draw(t, "fcx")
				st.Kind, st.X = "fc", x
				add([]int{m.shapes[x][0], c.O}, true, true, m.random[x])
			case k == 7:
				x := rapid.SampledFrom(all).Draw(t, "actx")
				st.Kind, st.X = "act", x
				st.Act = rapid.SampledFrom([]string{"relu", "leaky", "sigmoid", "tanh"}).Draw(t, "act")
				add(m.shapes[x], m.tainted[x], m.tracked[x], m.random[x])
			case k == 8:
				var fit []int
				for i, s := range m.shapes {
					if len(s) == 1 {
						fit = append(fit, i)
					}
				}
				if len(fit) == 0 {
					continue
				}
				x := rapid.SampledFrom(fit).Draw(t, "lossx")
				st.Kind, st.X = "loss", x
				add([]int{}, m.tainted[x], m.tracked[x], m.random[x])
			case k == 9:
				st.Kind, st.X = "read", rapid.SampledFrom(all).Draw(t, "readx")
			case k == 10:
				x := rapid.SampledFrom(all).Draw(t, "randx")
				st.Kind, st.X = "rand", x
				if len(gp.Steps)%3 == 0 {
					add([]int{40, 40}, false, false, true)
				} else {
					add(m.shapes[x], false, false, true)
				}
			default:
				var cand []int
				for i := nShared; i < len(m.shapes); i++ {
					if !m.tainted[i] && m.tracked[i] && !m.random[i] {
						cand = append(cand, i)
					}
				}
				if len(cand) == 0 {
					continue
				}
				x := rapid.SampledFrom(cand).Draw(t, "bpx")
				st.Kind, st.X = "bp", x
				// single-use graphs: everything private becomes spent; stop using it
				gp.Steps = append(gp.Steps, st)
				nsteps = len(gp.Steps)
				continue
			}
			gp.Steps = append(gp.Steps, st)
		}
		c.G = append(c.G, gp)
	}
	return c
}

type c20World struct {
	shared []tensor.Tensor
	fc     *layers.FC
	bce    *losses.BCE
	ce     *losses.CE
	// one activation object of each kind, shared by all goroutines like the layer
	acts map[string]func(x tensor.Tensor) (tensor.Tensor, error)
}

func buildWorld(c C20Case) (*c20World, error) {
	w := &c20World{}
	for _, l := range c.Shared {
		x, err := lib.New(l.Shape, l.Vals, l.Tracked)
		if err != nil {
			return nil, err
		}
		w.shared = append(w.shared, x)
	}
	for i, n := range c.Derived {
		in := make([]tensor.Tensor, len(n.In))
		for k, o := range n.In {
			if o < 0 || o >= len(w.shared) {
				return nil, fmt.Errorf("malformed derived node %d", i)
			}
			in[k] = w.shared[o]
		}
		y, err := prog.ApplyLib(n, in, nil)
		if err != nil {
			return nil, err
		}
		w.shared = append(w.shared, y)
	}
	fc, err := layers.NewFC(&layers.FCConfig{Inputs: c.F, Outputs: c.O})
	if err != nil {
		return nil, err
	}
	ws := fc.Weights()
	*ws[0].Value = lib.MustNew([]int{c.O}, c.W, true)
	*ws[1].Value = lib.MustNew([]int{c.O}, c.B, true)
	w.fc = fc
	w.bce, w.ce = losses.NewBCE(), losses.NewCE()
	w.acts = map[string]func(x tensor.Tensor) (tensor.Tensor, error){}
	for _, k := range []string{"relu", "leaky", "sigmoid", "tanh"} {
		fw, err := (ActCase{Kind: k, NilConf: true}).layer1()
		if err != nil {
			return nil, err
		}
		w.acts[k] = fw
	}
	return w, nil
}

type gResult struct {
	snaps []lib.Snapshot // every deterministic value, in order
	reads []float64
	err   string
}

// runG executes one goroutine's program against the world.
func runG(c C20Case, w *c20World, gp GProg) (res gResult) {
	defer func() {
		if r := recover(); r != nil {
			res.err = fmt.Sprintf("panic: %v", r)
		}
	}()
	vals := append([]tensor.Tensor{}, w.shared...)
	random := make([]bool, len(vals))
	gradRandom := false
	for _, l := range gp.Private {
		x, err := lib.New(l.Shape, l.Vals, l.Tracked)
		if err != nil {
			res.err = err.Error()
			return
		}
		vals = append(vals, x)
		random = append(random, false)
	}
	get := func(i int) (tensor.Tensor, bool) {
		if i < 0 || i >= len(vals) {
			res.err = "malformed"
			return nil, false
		}
		return vals[i], true
	}
	for si, st := range gp.Steps {
		if st.Yield {
			runtime.Gosched()
		}
		var y tensor.Tensor
		var err error
		rnd := false
		switch st.Kind {
		case "op":
			in := make([]tensor.Tensor, len(st.Node.In))
			for k, o := range st.Node.In {
				x, ok := get(o)
				if !ok {
					return
				}
				in[k] = x
				rnd = rnd || random[o]
			}
			y, err = prog.ApplyLib(*st.Node, in, nil)
		case "fc":
			x, ok := get(st.X)
			if !ok {
				return
			}
			rnd = random[st.X]
			y, err = w.fc.Forward(x)
		case "act":
			x, ok := get(st.X)
			if !ok {
				return
			}
			rnd = random[st.X]
			if fw, ok := w.acts[st.Act]; ok {
				y, err = fw(x) // the world's shared activation object
			} else {
				y, err = ActCase{Kind: st.Act, NilConf: true}.forward(x)
			}
		case "loss":
			x, ok := get(st.X)
			if !ok {
				return
			}
			rnd = random[st.X]
			y, err = losses.NewMSE().Compute(x, x.Scale(0.5))
		case "read":
			x, ok := get(st.X)
			if !ok {
				return
			}
			s := x.Shape()
			idx := make([]int, len(s))
			v, aerr := x.At(idx...)
			if aerr != nil {
				res.err = aerr.Error()
				return
			}
			if !random[st.X] {
				res.reads = append(res.reads, float64(x.NElems()), v, x.Sum(), x.Mean(), x.Var(), x.Max())
			}
			continue
		case "rand":
			x, ok := get(st.X)
			if !ok {
				return
			}
			rs := x.Shape()
			if si%3 == 0 {
				rs = []int{40, 40} // large random tensors may take another path in the library
			}
			if si%2 == 0 {
				y, err = tensor.RandU(rs, -1, 1, nil)
			} else {
				y, err = tensor.RandN(rs, 0, 1, nil)
			}
			rnd = true
		case "ctor":
			if st.X >= 1 && st.X <= 64 {
				y, err = tensor.Eye(st.X, nil)
			} else {
				x, ok := get(-st.X - 1)
				if !ok {
					return
				}
				switch si % 3 {
				case 0:
					y, err = tensor.Full(x.Shape(), 0.25, nil)
				case 1:
					y, err = tensor.Zeros(x.Shape(), nil)
				default:
					y, err = tensor.Ones(x.Shape(), lib.Conf(true))
				}
			}
		case "many":
			switch st.Act {
			case "bcast":
				x, ok := get(st.X)
				if !ok {
					return
				}
				rnd = random[st.X]
				for j := 1; j <= 12 && err == nil; j++ {
					y, err = x.Broadcast(append([]int{j}, x.Shape()...))
				}
			default:
				for j := 0; j < 12 && err == nil; j++ {
					p := lib.MustNew([]int{2, 2}, []float64{0.3, 0.7, 0.9, 0.1 + 0.05*float64(j)}, true)
					tg := lib.MustNew([]int{2, 2}, []float64{1, 0, 0.25, 0.75}, false)
					if st.Act == "bce" {
						pf, _ := p.Reshape([]int{4})
						tf, _ := tg.Reshape([]int{4})
						y, err = w.bce.Compute(pf, tf)
					} else {
						y, err = w.ce.Compute(p, tg)
					}
				}
			}
		case "own":
			x, ok := get(st.X)
			if !ok {
				return
			}
			rnd = random[st.X]
			y = x.Scale(1)
			y.ResetGradContext(true)
		case "bp":
			x, ok := get(st.X)
			if !ok {
				return
			}
			if err := tensor.BackPropagate(x); err != nil {
				res.err = "BackPropagate: " + err.Error()
				return
			}
			if random[st.X] {
				gradRandom = true // gradients now depend on random draws: not comparable
			}
			continue
		default:
			res.err = "malformed"
			return
		}
		if err != nil {
			res.err = fmt.Sprintf("step %d (%s): %v", si, st.Kind, err)
			return
		}
		vals = append(vals, y)
		random = append(random, rnd)
	}
	// deterministic values and the gradients of private tensors
	for i := len(w.shared); i < len(vals); i++ {
		if random[i] {
			s, _, err := lib.Read(vals[i])
			if err != nil {
				res.err = err.Error()
				return
			}
			res.snaps = append(res.snaps, lib.Snapshot{Shape: s})
			continue
		}
		sn, err := lib.Snap(vals[i])
		if err != nil {
			res.err = err.Error()
			return
		}
		if gradRandom {
			sn.HasG, sn.GS, sn.GV = false, nil, nil
		}
		res.snaps = append(res.snaps, sn)
	}
	return
}

var c20CaseFile *os.File

func logC20Case(c C20Case) {
	dir := os.Getenv("VERIF_CASEDIR")
	if dir == "" {
		return
	}
	if c20CaseFile == nil {
		f, err := os.Create(filepath.Join(dir, "c20.cases.jsonl"))
		if err != nil {
			return
		}
		c20CaseFile = f
	}
	b, _ := json.Marshal(c)
	c20CaseFile.Write(append(b, '\n'))
	c20CaseFile.Sync()
}

func checkC20(c C20Case) *Failure {
	if len(c.G) < 1 || len(c.G) > 16 || c.F < 1 || c.O < 1 || len(c.W) != c.O || len(c.B) != c.O {
		return nil
	}
	// the history is on disk before it runs: the race detector halts the process
	logC20Case(c)
	// The concurrent rounds run first and the sequential twin afterwards: state that the
	// library initialises lazily on first use is then first touched concurrently.
	bps := 0
	var rounds [][]gResult
	var sharedAfter [][]lib.Snapshot
	for round := 0; round < 3; round++ {
		w, err := buildWorld(c)
		if err != nil {
			return nil
		}
		got := make([]gResult, len(c.G))
		var wg sync.WaitGroup
		start := make(chan struct{})
		for g := range c.G {
			wg.Add(1)
			go func(g int) {
				defer wg.Done()
				<-start
				got[g] = runG(c, w, c.G[g])
			}(g)
		}
		close(start)
		wg.Wait()
		rounds = append(rounds, got)
		after, err := snapAll(w.shared)
		if err != nil {
			return failf("%v", err)
		}
		sharedAfter = append(sharedAfter, after)
	}
	// sequential twin
	w, err := buildWorld(c)
	if err != nil {
		return nil
	}
	sharedBefore, err := snapAll(w.shared)
	if err != nil {
		return failf("%v", err)
	}
	want := make([]gResult, len(c.G))
	for g := range c.G {
		want[g] = runG(c, w, c.G[g])
		if want[g].err == "malformed" {
			return nil
		}
		if want[g].err != "" {
			return failf("sequential execution of goroutine %d's program failed: %s", g, want[g].err)
		}
	}
	for round, got := range rounds {
		for g := range c.G {
			if got[g].err != "" {
				return failf("round %d: goroutine %d failed although the same program succeeds sequentially: %s", round, g, got[g].err)
			}
			if len(got[g].snaps) != len(want[g].snaps) || len(got[g].reads) != len(want[g].reads) {
				return failf("round %d: goroutine %d produced a different number of results", round, g)
			}
			for i := range got[g].snaps {
				if !got[g].snaps[i].Equal(want[g].snaps[i]) {
					return failf("round %d: goroutine %d: value %d differs from the sequential execution of the same program", round, g, i)
				}
			}
			for i := range got[g].reads {
				if !lib.SameBits(got[g].reads[i], want[g].reads[i]) {
					return failf("round %d: goroutine %d: read %d = %v, sequentially %v", round, g, i, got[g].reads[i], want[g].reads[i])
				}
			}
		}
		for i := range sharedAfter[round] {
			if !sharedAfter[round][i].Equal(sharedBefore[i]) {
				return failf("round %d: shared tensor %d changed (value or gradient)", round, i)
			}
		}
	}
	touch := map[int]int{}
	for _, gp := range c.G {
		seen := map[int]bool{}
		hasBP := false
		for _, st := range gp.Steps {
			if st.Kind == "bp" {
				hasBP = true
			}
			if st.Node != nil {
				for _, o := range st.Node.In {
					if o < len(c.Shared) && c.Shared[o].Tracked {
						seen[o] = true
					}
				}
			}
		}
		if hasBP {
			bps++
		}
		for o := range seen {
			touch[o]++
		}
	}
	evid.Eval()
	evid.Class(fmt.Sprintf("C20.goroutines=%d", len(c.G)))
	evid.ClassN("C20.private_backpropagations", bps)
	nt := false
	for _, n := range touch {
		if n >= 3 && bps >= 1 {
			nt = true
		}
	}
	if nt {
		evid.Class("C20.>=3_goroutines_on_one_tracked_tensor_with_private_bp")
		evid.NonTrivial(c)
	}
	return nil
}

func TestC20_concurrent(t *testing.T) {
	_ = activations.NewRelu
	run(t, 600, func(rt *rapid.T) {
		c := genC20(rt)
		if f := guard(func() *Failure { return checkC20(c) }); f != nil {
			fail(rt, "C20/concurrent", c, f)
		}
	})
}

/* ---------- same operation on one shared tensor from several goroutines ---------- */

// C20Pair: a shared tensor S - a leaf, or the result of Prov applied to the leaves - on which
// 2-4 goroutines perform the same operation Test concurrently (S is an operand of Test; the
// other operands are leaves). Covers every (provenance of S) x (operation on S) combination
// with maximal contention, which the free-form programs reach only by coincidence.
type C20Pair struct {
	Leaves []prog.Leaf `json:"leaves"`
	Prov   *prog.Node  `json:"prov,omitempty"`
	Test   prog.Node   `json:"test"`
	N      int         `json:"n"`
	// Reads: instead of Test, every goroutine runs the whole battery of single-operand calls on
	// S: the scalar reducers (Sum, Max, Min, Avg, Var, Std, Mean, NElems), every unary op, every
	// Along reducer / Flatten / UnSqueeze / Squeeze for every admissible dim, Transpose, Reshape,
	// Broadcast, Slice
	Reads bool `json:"reads,omitempty"`
}

// battery lists every single-operand operation applicable to a tensor of the given shape,
// with every admissible dim argument (operand id 0).
func battery(shape []int) []prog.Node {
	rank := len(shape)
	var ns []prog.Node
	for _, op := range prog.Unary {
		ns = append(ns, prog.Node{Op: op, In: []int{0}, F: 2})
	}
	for d := 0; d < rank; d++ {
		for _, op := range prog.Along {
			ns = append(ns, prog.Node{Op: op, In: []int{0}, I: d})
		}
		ns = append(ns, prog.Node{Op: "flatten", In: []int{0}, I: d})
		if shape[d] == 1 {
			ns = append(ns, prog.Node{Op: "squeeze", In: []int{0}, I: d})
		}
	}
	for d := 0; d <= rank && rank < 6; d++ {
		ns = append(ns, prog.Node{Op: "unsqueeze", In: []int{0}, I: d})
	}
	if rank >= 2 {
		ns = append(ns, prog.Node{Op: "transpose", In: []int{0}})
	}
	ns = append(ns, prog.Node{Op: "reshape", In: []int{0}, S: []int{ref.Prod(shape)}})
	if rank < 6 {
		ns = append(ns, prog.Node{Op: "broadcast", In: []int{0}, S: append([]int{2}, shape...)})
	}
	ns = append(ns, prog.Node{Op: "slice", In: []int{0}}, prog.Node{Op: "add", In: []int{0, 0}}, prog.Node{Op: "eq", In: []int{0, 0}})
	return ns
}

// runBattery applies the battery to s and snapshots every result, preceded by the scalar reads.
func runBattery(s tensor.Tensor) ([]float64, []lib.Snapshot, error) {
	reads := []float64{s.Sum(), s.Max(), s.Min(), s.Avg(), s.Var(), s.Std(), s.Mean(), float64(s.NElems())}
	var snaps []lib.Snapshot
	for _, n := range battery(s.Shape()) {
		in := []tensor.Tensor{s}
		if len(n.In) == 2 {
			in = []tensor.Tensor{s, s}
		}
		y, err := prog.ApplyLib(n, in, nil)
		if err != nil {
			return nil, nil, fmt.Errorf("%s(%d) on shape %v: %w", n.Op, n.I, s.Shape(), err)
		}
		sn, err := lib.Snap(y)
		if err != nil {
			return nil, nil, err
		}
		snaps = append(snaps, sn)
	}
	return reads, snaps, nil
}

func init() { register("C20/pairs", checkC20Pair) }

func genC20Pair(t *rapid.T) C20Pair {
	shapes := append(append([][]int{}, prog.HistShapes...), []int{2, 2, 2, 2}, []int{1, 2, 2, 1, 2}, []int{2, 1, 2, 2}, []int{2, 1, 1, 2, 1, 2}, []int{24, 24}, []int{1100}, []int{40, 30}, []int{33, 2, 9})
	var c C20Pair
	nl := rapid.IntRange(1, 3).Draw(t, "nleaves")
	var sh [][]int
	for i := 0; i < nl; i++ {
		s := rapid.SampledFrom(shapes).Draw(t, "shape")
		if i > 0 && rapid.Bool().Draw(t, "sameshape") {
			s = sh[0]
		}
		c.Leaves = append(c.Leaves, prog.Leaf{Shape: ref.Cp(s), Vals: prog.DrawValsMode(t, ref.Prod(s), i, "small"), Tracked: rapid.Bool().Draw(t, "tracked")})
		sh = append(sh, s)
	}
	sid := 0
	if rapid.IntRange(0, 3).Draw(t, "derived") > 0 {
		n, ok := prog.DrawOp(t, sh, seq(len(sh)), prog.AllOps)
		if ok {
			if rs, err := prog.ResultShape(n, sh); err == nil && ref.Prod(rs) <= 2400 && len(rs) <= 6 {
				c.Prov = &n
				sh = append(sh, rs)
				sid = len(sh) - 1
			}
		}
	}
	// the test operation must use S; redraw a few times, else fall back to a unary op on S
	c.Test = prog.Node{Op: "sin", In: []int{sid}}
	for try := 0; try < 4; try++ {
		n, ok := prog.DrawOp(t, sh, append([]int{sid, sid, sid}, seq(len(sh))...), prog.AllOps)
		if !ok {
			continue
		}
		uses := false
		for _, o := range n.In {
			uses = uses || o == sid
		}
		if !uses {
			continue
		}
		if rs, err := prog.ResultShape(n, sh); err == nil && ref.Prod(rs) <= 4800 {
			c.Test = n
			break
		}
	}
	c.N = rapid.IntRange(2, 4).Draw(t, "goroutines")
	c.Reads = rapid.IntRange(0, 2).Draw(t, "reads") == 0
	return c
}

func checkC20Pair(c C20Pair) *Failure {
	if len(c.Leaves) == 0 || len(c.Leaves) > 4 || c.N < 1 || c.N > 8 {
		return nil
	}
	var pool []tensor.Tensor
	var sh [][]int
	for _, l := range c.Leaves {
		if !ref.ValidDims(l.Shape) || len(l.Vals) != ref.Prod(l.Shape) {
			return nil
		}
		x, err := lib.New(l.Shape, l.Vals, l.Tracked)
		if err != nil {
			return nil
		}
		pool = append(pool, x)
		sh = append(sh, l.Shape)
	}
	if c.Prov != nil {
		rs, err := prog.ResultShape(*c.Prov, sh)
		if err != nil {
			return nil
		}
		in := make([]tensor.Tensor, len(c.Prov.In))
		for k, o := range c.Prov.In {
			in[k] = pool[o]
		}
		y, err := prog.ApplyLib(*c.Prov, in, nil)
		if err != nil {
			return failf("%s rejected valid operands: %v", c.Prov.Op, err)
		}
		pool = append(pool, y)
		sh = append(sh, rs)
	}
	for _, o := range c.Test.In {
		if o < 0 || o >= len(pool) {
			return nil
		}
	}
	if _, err := prog.ResultShape(c.Test, sh); err != nil {
		return nil
	}
	logC20Case(C20Case{}) // keeps the case file in step; the pair itself is logged below
	if dir := os.Getenv("VERIF_CASEDIR"); dir != "" && c20CaseFile != nil {
		b, _ := json.Marshal(c)
		c20CaseFile.Write(append(b, '\n'))
		c20CaseFile.Sync()
	}
	in := make([]tensor.Tensor, len(c.Test.In))
	for k, o := range c.Test.In {
		in[k] = pool[o]
	}
	got := make([][]lib.Snapshot, c.N)
	reads := make([][]float64, c.N)
	errs := make([]error, c.N)
	var wg sync.WaitGroup
	start := make(chan struct{})
	for g := 0; g < c.N; g++ {
		wg.Add(1)
		go func(g int) {
			defer wg.Done()
			defer func() {
				if r := recover(); r != nil {
					errs[g] = fmt.Errorf("panic: %v", r)
				}
			}()
			<-start
			if c.Reads {
				s := in[0]
				for _, o := range c.Test.In {
					if o == len(pool)-1 {
						s = pool[o]
					}
				}
				s = pool[len(pool)-1]
				r, sn, err := runBattery(s)
				if err != nil {
					errs[g] = err
					return
				}
				reads[g], got[g] = r, sn
				return
			}
			for rep := 0; rep < 2; rep++ {
				y, err := prog.ApplyLib(c.Test, in, nil)
				if err != nil {
					errs[g] = err
					return
				}
				s, err := lib.Snap(y)
				if err != nil {
					errs[g] = err
					return
				}
				got[g] = append(got[g], s)
				runtime.Gosched()
			}
		}(g)
	}
	close(start)
	wg.Wait()
	if c.Reads {
		s := pool[len(pool)-1]
		want, wantSnaps, err := runBattery(s)
		if err != nil {
			return failf("sequential battery failed: %v", err)
		}
		for g := 0; g < c.N; g++ {
			if errs[g] != nil {
				return failf("goroutine %d: %v", g, errs[g])
			}
			for k := range want {
				if len(reads[g]) != len(want) || !lib.SameBits(reads[g][k], want[k]) {
					return failf("goroutine %d: concurrent reducer %d of the shared tensor = %v, sequentially %v", g, k, reads[g], want)
				}
			}
			if len(got[g]) != len(wantSnaps) {
				return failf("goroutine %d: battery produced %d results, sequentially %d", g, len(got[g]), len(wantSnaps))
			}
			for k := range wantSnaps {
				if !got[g][k].Equal(wantSnaps[k]) {
					return failf("goroutine %d: concurrent result %d of the battery on the shared tensor differs from the sequential one", g, k)
				}
			}
		}
		evid.Eval()
		evid.Class("C20.pair_concurrent_reducers")
		if c.Prov != nil {
			evid.NonTrivial(c)
		}
		return nil
	}
	y, err := prog.ApplyLib(c.Test, in, nil)
	if err != nil {
		return failf("%s rejected valid operands: %v", c.Test.Op, err)
	}
	want, err := lib.Snap(y)
	if err != nil {
		return failf("%v", err)
	}
	for g := 0; g < c.N; g++ {
		if errs[g] != nil {
			return failf("goroutine %d: %s failed concurrently although it succeeds sequentially: %v", g, c.Test.Op, errs[g])
		}
		for _, s := range got[g] {
			if !s.Equal(want) {
				return failf("goroutine %d: concurrent %s differs from the sequential result", g, c.Test.Op)
			}
		}
	}
	evid.Eval()
	prov := "leaf"
	if c.Prov != nil {
		prov = c.Prov.Op
	}
	evid.Class("C20.pair_test_op=" + c.Test.Op)
	evid.Class("C20.pair_provenance=" + prov)
	if c.Prov != nil && c.N >= 3 {
		evid.NonTrivial(c)
	}
	return nil
}

func TestC20_pairs(t *testing.T) {
	run(t, 4000, func(rt *rapid.T) {
		c := genC20Pair(rt)
		if f := guard(func() *Failure { return checkC20Pair(c) }); f != nil {
			fail(rt, "C20/pairs", c, f)
		}
	})
}
