package checks

import (
	"math"

	"github.com/sahandsafizadeh/qeep/component/initializers"
	"github.com/sahandsafizadeh/qeep/component/layers"
	"github.com/sahandsafizadeh/qeep/component/losses"
	"github.com/sahandsafizadeh/qeep/component/metrics"
	"github.com/sahandsafizadeh/qeep/component/optimizers"
	"github.com/sahandsafizadeh/qeep/tensor"

	"qeepverif/lib"
	"qeepverif/prog"
	"qeepverif/ref"
)

// prehistory gives the test process a past before the property's cases run: a fixed,
// deterministic (function of the shard number only) sequence of a few thousand library calls
// of every kind - all operations on assorted shapes (long dimensions, large tensors, rank 6),
// hostile values (NaN, Inf, 1e308, denormals), rejected calls, back-propagations, resets,
// component objects. Nothing is checked here. The properties quantify over all histories of
// the process, and state that the library might keep process-wide (caches keyed by shape or
// value, pools, lazily built tables) is otherwise only ever filled by the checked operation
// itself on the tame values of its own cases. Shard 0 runs without it.
func prehistory(shard int) {
	if shard == 0 {
		return
	}
	state := uint64(shard)*0x9E3779B97F4A7C15 + 12345
	next := func(n int) int {
		state = state*6364136223846793005 + 1442695040888963407
		return int((state >> 33) % uint64(n))
	}
	shapes := [][]int{{}, {1}, {2}, {3}, {31}, {32}, {33}, {64}, {1, 32}, {2, 1}, {1, 33}, {2, 2}, {2, 33}, {3, 2}, {33, 3}, {2, 3},
		{3, 1}, {1, 12}, {11, 2}, {2, 1, 33}, {2, 2, 2}, {2, 2, 2, 2}, {1, 2, 2, 1, 2}, {2, 1, 1, 2, 1, 2}, {17, 129}, {50, 41}, {130, 5, 3}, {20, 20}, {1100}, {4, 4, 4, 4}}
	hostile := []float64{0, math.Copysign(0, -1), 1, -1, 0.5, math.NaN(), math.Inf(1), math.Inf(-1), 1e308, -1e308, 5e-324, 1e-300, 700, -700, 0.0012344, 0.0012341, 1.0000003}
	mk := func() (tensor.Tensor, []int) {
		s := shapes[next(len(shapes))]
		n := ref.Prod(s)
		v := make([]float64, n)
		mode := next(3)
		for i := range v {
			switch mode {
			case 0:
				v[i] = float64(i%13)/4 - 1.5
			case 1:
				v[i] = hostile[next(len(hostile))]
			default:
				v[i] = float64(next(2000)-1000) / 64
			}
		}
		x, err := lib.NewVia(s, v, next(2) == 0, next(lib.NViaModes))
		if err != nil {
			x, _ = tensor.Zeros(s, nil)
		}
		return x, s
	}
	step := func() {
		defer func() { _ = recover() }()
		x, s := mk()
		var y tensor.Tensor
		switch next(14) {
		case 0, 1, 2:
			shapesOnly := [][]int{s}
			n, ok := drawPlainOp(next, shapesOnly)
			if ok {
				y, _ = prog.ApplyLib(n, []tensor.Tensor{x}, nil)
			}
		case 3, 4:
			z, _ := mk()
			switch next(8) {
			case 0:
				y, _ = x.Add(z)
			case 1:
				y, _ = x.Mul(z)
			case 2:
				y, _ = x.Div(z)
			case 3:
				y, _ = x.MatMul(z)
			case 4:
				y, _ = x.Dot(z)
			case 5:
				y, _ = tensor.Concat([]tensor.Tensor{x, z}, next(3)-1)
			case 6:
				y, _ = x.ElMax(z)
			default:
				y, _ = x.Patch([]tensor.Range{{From: next(3) - 1, To: next(4)}}, z)
			}
		case 5:
			_ = x.Sum() + x.Max() + x.Min() + x.Var() + x.Std() + x.Mean()
			_, _ = x.At(next(3)-1, next(3))
		case 6:
			w, _ := tensor.Eye(next(26)-1, nil)
			if w != nil {
				y, _ = w.MatMul(x)
			}
			_, _ = tensor.Full(s, hostile[next(len(hostile))], nil)
			_, _ = tensor.RandU(s, -1, 1, nil)
			_, _ = tensor.RandN([]int{40, 40}, 0, 1, nil)
		case 7:
			for _, a := range []string{"relu", "leaky", "sigmoid", "tanh", "softmax"} {
				if fw, err := (ActCase{Kind: a, NilConf: next(2) == 0, M: 0.2, Dim: next(3)}).layer(); err == nil {
					y, _ = fw(x)
				}
			}
		case 8:
			z, _ := mk()
			// the three losses in an order that differs from step to step (and from shard to shard)
			for k, r := 0, next(3); k < 3; k++ {
				switch (k + r) % 3 {
				case 0:
					_, _ = losses.NewMSE().Compute(x, z)
				case 1:
					_, _ = losses.NewBCE().Compute(x, z)
				default:
					y, _ = losses.NewCE().Compute(x, z)
				}
			}
			_, _ = losses.NewBCE().Compute(nil, z)
			acc := metrics.NewAccuracy()
			_ = acc.Accumulate(x, z)
			_ = acc.Accumulate(x, x)
			_, _ = acc.Result()
		case 9:
			if len(s) == 2 {
				if fc, err := layers.NewFC(&layers.FCConfig{Inputs: s[1], Outputs: 1 + next(4)}); err == nil {
					y, _ = fc.Forward(x)
				}
			}
			for _, c := range []float64{0, 2e-7, 0.25, 0.2500004} {
				_ = optimizers.NewSGD(&optimizers.SGDConfig{LearningRate: c})
			}
			if in, err := initializers.NewHeNormal(&initializers.HeNormalConfig{FanIn: 1 + next(9)}); err == nil {
				_, _ = in.Init(s)
			}
		case 10:
			_, _ = x.Reshape([]int{next(5) - 2, next(5) - 2})
			_, _ = x.Broadcast(append([]int{2}, s...))
			_, _ = x.Slice([]tensor.Range{{From: 0, To: 0}, {From: next(3), To: next(4)}})
			_, _ = x.MatMul(nil)
		default:
			y = x.Sin()
		}
		if y != nil {
			_ = tensor.BackPropagate(y)
			if g := x.Gradient(); g != nil && next(3) == 0 {
				opt := optimizers.NewSGD(nil)
				w := x
				_ = opt.Update(&w)
			}
			x.ResetGradContext(next(2) == 0)
		}
	}
	for i := 0; i < 2500; i++ {
		step()
	}
}

// drawPlainOp picks a unary / shape / reduction node for one operand without rapid.
func drawPlainOp(next func(int) int, shapes [][]int) (prog.Node, bool) {
	ops := append(append(append([]string{}, prog.Unary...), prog.Along...), "transpose", "flatten", "unsqueeze", "squeeze", "slice", "broadcast", "reshape")
	n := prog.Node{Op: ops[next(len(ops))], In: []int{0}}
	rank := len(shapes[0])
	n.I = next(rank + 2)
	n.F = []float64{0, 1, 2, 3, -1, 0.5}[next(6)]
	switch n.Op {
	case "reshape":
		n.S = []int{ref.Prod(shapes[0])}
	case "broadcast":
		n.S = append([]int{2}, shapes[0]...)
	case "slice":
		n.R = []ref.Range{{From: 0, To: 0}}
	}
	return n, true
}
