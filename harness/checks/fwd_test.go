package checks

import (
	"fmt"
	"math"

	"github.com/sahandsafizadeh/qeep/tensor"

	"qeepverif/lib"
	"qeepverif/prog"
	"qeepverif/ref"
)

// compareMode says how a forward result is compared with the reference.
type compareMode int

const (
	cmpBits compareMode = iota // bit-exact, NaN == NaN
	cmpNum                     // numerically equal (-0 == +0), NaN == NaN
	cmpTol                     // within 1e-9 of the per-element scale
)

// refForward evaluates the single node of p on the reference (values only).
func refForward(p prog.Program) (ref.T, error) {
	n := p.Nodes[0]
	in := make([]ref.T, len(n.In))
	for k, o := range n.In {
		in[k] = ref.FromVals(p.Leaves[o].Shape, p.Leaves[o].Vals)
	}
	return prog.ApplyRef(nil, n, in)
}

// absForward evaluates the node on the absolute values of the operands: for sums of products
// this is the sum of |terms|, the scale against which rounding is measured.
func absForward(p prog.Program) ref.T {
	n := p.Nodes[0]
	in := make([]ref.T, len(n.In))
	for k, o := range n.In {
		v := make([]float64, len(p.Leaves[o].Vals))
		for i, x := range p.Leaves[o].Vals {
			v[i] = math.Abs(x)
		}
		in[k] = ref.FromVals(p.Leaves[o].Shape, v)
	}
	r, _ := prog.ApplyRef(nil, n, in)
	return r
}

// libForward builds the leaves (tracked as flagged) and applies the node; if the program asks
// for it, the same operation then runs once more on other data before anything is read.
func libForward(p prog.Program) ([]tensor.Tensor, tensor.Tensor, error) {
	lib.ResetAncestors()
	vals, err := prog.RunLib(p)
	if err != nil {
		return nil, nil, err
	}
	if p.Disturb {
		prog.Disturbance(p, false)
	}
	if p.UseResult {
		// the result is used like any tensor before anything is read back
		lib.Warm(vals[len(vals)-1])
	}
	// the operands, and the tensors they were derived from, are still what they were
	for i, l := range p.Leaves {
		s, v, err := lib.Read(vals[i])
		if err != nil || !ref.EqShape(s, l.Shape) {
			return nil, nil, fmt.Errorf("operand %d changed its shape to %v after the call (%v)", i, s, err)
		}
		for k := range v {
			if !lib.SameBits(v[k], l.Vals[k]) {
				return nil, nil, fmt.Errorf("operand %d element %d changed from %v to %v after the call", i, k, l.Vals[k], v[k])
			}
		}
	}
	if err := lib.CheckAncestors(); err != nil {
		return nil, nil, fmt.Errorf("after the call, %w", err)
	}
	return vals[:len(p.Leaves)], vals[len(vals)-1], nil
}

// compareTensor checks shape and elements of a library tensor against the reference.
func compareTensor(what string, y tensor.Tensor, want ref.T, mode compareMode, scale []float64) *Failure {
	ys, yv, err := lib.Read(y)
	if err != nil {
		return failf("%s: result unreadable: %v", what, err)
	}
	if !ref.EqShape(ys, want.Shape) {
		return failf("%s: result shape %v, defined shape %v", what, ys, want.Shape)
	}
	if y.NElems() != ref.Prod(want.Shape) {
		return failf("%s: NElems() = %d, product of shape %v = %d", what, y.NElems(), want.Shape, ref.Prod(want.Shape))
	}
	for k := range yv {
		w := want.E[k].V
		ok := false
		switch mode {
		case cmpBits:
			ok = lib.SameBits(yv[k], w)
		case cmpNum:
			ok = lib.SameNum(yv[k], w)
		case cmpTol:
			if math.IsNaN(w) || math.IsInf(w, 0) {
				ok = lib.SameNum(yv[k], w)
			} else {
				s := math.Abs(w)
				if scale != nil && scale[k] > s {
					s = scale[k]
				}
				ok = math.Abs(yv[k]-w) <= 1e-9*s+1e-300
			}
		}
		if !ok {
			return failf("%s: element %v = %v, defined value %v", what, ref.Unravel(k, want.Shape), yv[k], w)
		}
	}
	return nil
}

func sameTensors(what string, a, b tensor.Tensor, tol bool) *Failure {
	as, av, err := lib.Read(a)
	if err != nil {
		return failf("%s: unreadable: %v", what, err)
	}
	bs, bv, err := lib.Read(b)
	if err != nil {
		return failf("%s: unreadable: %v", what, err)
	}
	if !ref.EqShape(as, bs) {
		return failf("%s: shapes differ: %v vs %v", what, as, bs)
	}
	for k := range av {
		if tol {
			s := math.Max(math.Abs(av[k]), math.Abs(bv[k]))
			if math.Abs(av[k]-bv[k]) > 1e-9*s+1e-12 && !(math.IsNaN(av[k]) && math.IsNaN(bv[k])) {
				return failf("%s: element %v differs: %v vs %v", what, ref.Unravel(k, as), av[k], bv[k])
			}
		} else if !lib.SameBits(av[k], bv[k]) {
			return failf("%s: element %v differs: %v vs %v", what, ref.Unravel(k, as), av[k], bv[k])
		}
	}
	return nil
}

func maxRankOf(p prog.Program) int {
	m := 0
	for _, l := range p.Leaves {
		if len(l.Shape) > m {
			m = len(l.Shape)
		}
	}
	return m
}
