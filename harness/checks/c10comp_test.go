package checks

import (
	"testing"

	"github.com/sahandsafizadeh/qeep/component/layers"
	"github.com/sahandsafizadeh/qeep/component/metrics"
	"github.com/sahandsafizadeh/qeep/tensor"
	"pgregory.net/rapid"

	"qeepverif/evid"
	"qeepverif/lib"
	"qeepverif/prog"
	"qeepverif/ref"
)

// C10CompCase: one call of a component (loss, activation, FC layer, Accuracy) on argument
// tensors in known states. A component call is an operation like any other: it changes neither
// shape, elements, gradient nor tracking of the tensors passed to it.
type C10CompCase struct {
	Kind  string    `json:"kind"` // mse bce ce relu leaky sigmoid tanh softmax fc accuracy
	Shape []int     `json:"shape"`
	A     prog.F64s `json:"a"`
	B     prog.F64s `json:"b"`
	ATr   bool      `json:"a_tracked,omitempty"`
	BTr   bool      `json:"b_tracked,omitempty"`
	// AGrad / BGrad: the argument already holds a gradient from an earlier, unrelated graph
	AGrad bool `json:"a_grad,omitempty"`
	BGrad bool `json:"b_grad,omitempty"`
}

func init() { register("C10/components", checkC10Comp) }

var c10CompKinds = []string{"mse", "bce", "ce", "relu", "leaky", "sigmoid", "tanh", "softmax", "fc", "accuracy"}

func genC10Comp(t *rapid.T) C10CompCase {
	c := C10CompCase{Kind: rapid.SampledFrom(c10CompKinds).Draw(t, "kind")}
	switch c.Kind {
	case "ce", "fc":
		c.Shape = []int{rapid.IntRange(1, 4).Draw(t, "b"), rapid.IntRange(1, 4).Draw(t, "c")}
	case "mse", "bce", "accuracy":
		c.Shape = []int{rapid.IntRange(1, 6).Draw(t, "n")}
	default:
		c.Shape = prog.DrawShapeN(t, 1, 3, 4, 24, false)
	}
	n := ref.Prod(c.Shape)
	c.A, c.B = make([]float64, n), make([]float64, n)
	for i := 0; i < n; i++ {
		c.A[i] = float64(rapid.IntRange(1, 15).Draw(t, "a"))/16 + 0.001*float64(i)
		c.B[i] = float64(rapid.IntRange(0, 16).Draw(t, "b")) / 16
	}
	c.ATr, c.BTr = rapid.Bool().Draw(t, "atr"), rapid.Bool().Draw(t, "btr")
	c.AGrad = c.ATr && rapid.IntRange(0, 2).Draw(t, "agrad") == 0
	c.BGrad = c.BTr && rapid.IntRange(0, 2).Draw(t, "bgrad") == 0
	return c
}

// argState builds an argument tensor and, if asked, gives it a gradient through an earlier
// graph (it is then spent, like any tensor a back-propagation passed through).
func argState(shape []int, v []float64, tracked, grad bool) (tensor.Tensor, error) {
	x, err := lib.New(shape, v, tracked)
	if err != nil {
		return nil, err
	}
	if tracked && grad {
		if err := tensor.BackPropagate(x.Scale(3)); err != nil {
			return nil, err
		}
	}
	return x, nil
}

func checkC10Comp(c C10CompCase) *Failure {
	n := ref.Prod(c.Shape)
	if !ref.ValidDims(c.Shape) || n > 4096 || len(c.A) != n || len(c.B) != n || len(c.Shape) == 0 {
		return nil
	}
	a, err := argState(c.Shape, c.A, c.ATr, c.AGrad)
	if err != nil {
		return nil
	}
	b, err := argState(c.Shape, c.B, c.BTr, c.BGrad)
	if err != nil {
		return nil
	}
	sa0, _ := lib.Snap(a)
	sb0, _ := lib.Snap(b)
	twoArgs := true
	var y tensor.Tensor
	switch c.Kind {
	case "mse", "bce", "ce":
		y, err = newLoss1(c.Kind)(a, b)
	case "accuracy":
		err = metrics.NewAccuracy().Accumulate(a, b)
	case "fc":
		twoArgs = false
		var fc *layers.FC
		if fc, err = layers.NewFC(&layers.FCConfig{Inputs: c.Shape[1], Outputs: 2}); err == nil {
			xs := []tensor.Tensor{a}
			y, err = fc.Forward(xs...)
			if len(xs) != 1 || xs[0] != a {
				return failf("FC.Forward(inputs...) changed the caller's input slice")
			}
		}
	default:
		twoArgs = false
		var fw func(tensor.Tensor) (tensor.Tensor, error)
		if fw, err = (ActCase{Kind: c.Kind, NilConf: true}).layer1(); err == nil {
			y, err = fw(a)
		}
	}
	if err != nil {
		return failf("%s rejected valid arguments of shape %v: %v", c.Kind, c.Shape, err)
	}
	args := []struct {
		name          string
		x             tensor.Tensor
		before        lib.Snapshot
		tracked, grad bool
	}{{"first argument", a, sa0, c.ATr, c.AGrad}}
	if twoArgs {
		args = append(args, struct {
			name          string
			x             tensor.Tensor
			before        lib.Snapshot
			tracked, grad bool
		}{"second argument", b, sb0, c.BTr, c.BGrad})
	}
	// shape, elements and gradient are what they were
	for _, g := range args {
		now, err := lib.Snap(g.x)
		if err != nil || !g.before.Equal(now) {
			return failf("%s changed shape, elements or gradient of its %s (%v)", c.Kind, g.name, err)
		}
	}
	// tracking is what it was: a tracked, unspent argument still takes part in graphs (its
	// gradient arrives), an untracked one still receives nothing
	if y != nil {
		if err := tensor.BackPropagate(y); err != nil {
			return failf("BackPropagate of the %s result failed: %v", c.Kind, err)
		}
	}
	anySpent := false
	for _, g := range args {
		anySpent = anySpent || g.grad
	}
	for _, g := range args {
		if g.grad {
			continue // spent before the call: nothing new can reach it either way
		}
		// (a result computed from a spent argument is untracked: nothing flows back from it)
		if y != nil && g.tracked && !anySpent && c.Kind != "accuracy" {
			if g.x.Gradient() == nil {
				return failf("%s: its tracked %s received no gradient from the back-propagation of the result (the call changed the argument's tracking)", c.Kind, g.name)
			}
			continue
		}
		// not reached by a graph so far: probe
		p := g.x.Scale(1)
		if err := tensor.BackPropagate(p); err != nil {
			return failf("probe failed: %v", err)
		}
		if got := g.x.Gradient() != nil; got != g.tracked {
			return failf("%s: after the call its %s is tracked = %v, it was %v", c.Kind, g.name, got, g.tracked)
		}
	}
	evid.Eval()
	evid.Class("C10.component=" + c.Kind)
	if c.ATr || c.BTr {
		evid.NonTrivial(c)
	}
	return nil
}

func TestC10_components(t *testing.T) {
	run(t, 4000, func(rt *rapid.T) {
		c := genC10Comp(rt)
		if f := guard(func() *Failure { return checkC10Comp(c) }); f != nil {
			fail(rt, "C10/components", c, f)
		}
	})
}
