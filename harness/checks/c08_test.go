package checks

import (
	"fmt"
	"testing"

	"github.com/sahandsafizadeh/qeep/tensor"
	"pgregory.net/rapid"

	"qeepverif/evid"
	"qeepverif/lib"
	"qeepverif/prog"
	"qeepverif/ref"
)

// HStep is one step of an API history over a growing pool of tensors. Every leaf, op and
// grad step appends one tensor to the pool; X and the operands of Node are pool ids.
type HStep struct {
	Kind    string     `json:"kind"` // leaf | op | bp | reset | grad
	Shape   []int      `json:"shape,omitempty"`
	Vals    prog.F64s  `json:"vals,omitempty"`
	Tracked bool       `json:"tracked,omitempty"` // leaf / reset
	Node    *prog.Node `json:"node,omitempty"`
	X       int        `json:"x,omitempty"`
	Probe   bool       `json:"probe,omitempty"` // part of the final probe sweep
}

type C08Case struct {
	Steps []HStep `json:"steps"`
}

func init() { register("C08/history", checkC08) }

/* ---------- the tracked / spent model (from the property statement) ---------- */

type mEntry struct {
	shape      []int
	tracked    bool
	spent      bool
	hasGrad    bool
	leaf       bool
	passed     bool // non-leaf that a back-propagation passed through
	parents    []int
	isGrad     bool
	cmpOfSpent bool // comparison computed from a spent operand: later use is unspecified
	resetAt    int  // step after which ResetGradContext last turned this tensor into a fresh leaf (0: never)
	gradAt     int  // step of the back-propagation that last assigned / accumulated its gradient
}

type trackModel struct {
	e []*mEntry // aliased handles (one tensor object reached twice) share one entry
}

func (m *trackModel) addLeaf(shape []int, tracked bool) {
	m.e = append(m.e, &mEntry{shape: ref.Cp(shape), tracked: tracked, leaf: true})
}

// addOp applies the statement's rule: a result is spent iff an operand is spent, otherwise
// tracked iff some operand is tracked; comparison results are fresh and untracked.
func (m *trackModel) addOp(n prog.Node, shape []int) {
	anySpent, anyTracked := false, false
	for _, o := range n.In {
		anySpent = anySpent || m.e[o].spent
		anyTracked = anyTracked || m.e[o].tracked
	}
	ne := &mEntry{shape: ref.Cp(shape)}
	switch {
	case prog.IsCmp(n.Op):
		ne.leaf = true
		ne.cmpOfSpent = anySpent
	case anySpent:
		ne.spent = true
		ne.leaf = true // no edges
	default:
		ne.tracked = anyTracked
		if anyTracked {
			ne.parents = append([]int{}, n.In...)
		} else {
			ne.leaf = true
		}
	}
	m.e = append(m.e, ne)
}

func (m *trackModel) addGrad(x int) {
	m.e = append(m.e, &mEntry{shape: ref.Cp(m.e[x].shape), spent: true, leaf: true, isGrad: true})
}

// reach is the set a back-propagation from r passes through: r and, recursively, the tracked
// operands of tracked results.
func (m *trackModel) reach(r int) []int {
	if !m.e[r].tracked {
		return nil
	}
	seen := map[int]bool{r: true}
	order := []int{r}
	for i := 0; i < len(order); i++ {
		for _, p := range m.e[order[i]].parents {
			if m.e[p].tracked && !seen[p] {
				seen[p] = true
				order = append(order, p)
			}
		}
	}
	return order
}

// bpEnabled is precondition (a): no non-leaf in the reach set was passed through before.
func (m *trackModel) bpEnabled(r int) bool {
	for _, x := range m.reach(r) {
		if !m.e[x].leaf && m.e[x].passed {
			return false
		}
	}
	return true
}

func (m *trackModel) bp(r int) []int {
	set := m.reach(r)
	for _, x := range set {
		m.e[x].hasGrad = true
		m.e[x].spent = true
		if !m.e[x].leaf {
			m.e[x].passed = true
		}
	}
	return set
}

// resetEnabled is precondition (b): x has no tracked, not yet back-propagated result
// computed from it (directly or through further operations).
func (m *trackModel) resetEnabled(x int) bool {
	for n := range m.e {
		en := m.e[n]
		if en.leaf || !en.tracked || en.passed {
			continue
		}
		// is x an ancestor of n?
		seen := map[int]bool{}
		stack := append([]int{}, en.parents...)
		for len(stack) > 0 {
			p := stack[len(stack)-1]
			stack = stack[:len(stack)-1]
			if p == x {
				return false
			}
			if seen[p] {
				continue
			}
			seen[p] = true
			stack = append(stack, m.e[p].parents...)
		}
	}
	return true
}

func (m *trackModel) reset(x int, tracked bool) {
	e := m.e[x]
	e.tracked, e.spent, e.hasGrad, e.leaf, e.passed, e.parents, e.isGrad, e.cmpOfSpent = tracked, false, false, true, false, nil, false, false
	e.resetAt = -1 // the checker replaces this by the step number
}

func (m *trackModel) shapes() [][]int {
	s := make([][]int, len(m.e))
	for i := range m.e {
		s[i] = m.e[i].shape
	}
	return s
}

// operands lists the pool ids an op may use: everything except comparison results computed
// from spent operands (whose later use the statement leaves open).
func (m *trackModel) operands() []int {
	var o []int
	for i := range m.e {
		if !m.e[i].cmpOfSpent {
			o = append(o, i)
		}
	}
	return o
}

/* ---------- generation: the model evolves while steps are drawn ---------- */

func drawHistOp(t *rapid.T, m *trackModel, ops []string) (prog.Node, []int) {
	shapes := m.shapes()
	elig := m.operands()
	n, ok := prog.DrawOp(t, shapes, elig, ops)
	var rs []int
	var err error
	if ok {
		rs, err = prog.ResultShape(n, shapes)
	}
	if !ok || err != nil || ref.Prod(rs) > 24 || len(rs) > 5 {
		n = prog.Node{Op: "scale", In: []int{n.In[0]}, F: 1}
		rs, _ = prog.ResultShape(n, shapes)
	}
	return n, rs
}

func genC08(t *rapid.T) C08Case {
	var c C08Case
	m := &trackModel{}
	addLeaf := func() {
		s := rapid.SampledFrom(prog.HistShapes).Draw(t, "shape")
		tr := rapid.IntRange(0, 2).Draw(t, "tracked") > 0
		st := HStep{Kind: "leaf", Shape: ref.Cp(s), Tracked: tr}
		if k := rapid.IntRange(0, 9).Draw(t, "ctor"); k <= 2 {
			// a constructor other than TensorOf: 2 = Eye(n), 3 = Zeros, 4 = Ones (often untracked:
			// constants that several graphs of a history share)
			st.X = 2 + k
			if st.X == 2 {
				n := rapid.IntRange(1, 3).Draw(t, "eyen")
				st.Shape = []int{n, n}
			}
			st.Tracked = rapid.IntRange(0, 3).Draw(t, "ctortracked") == 0
		} else {
			st.Vals = prog.DrawValsMode(t, ref.Prod(s), len(m.e), "std")
		}
		c.Steps = append(c.Steps, st)
		m.addLeaf(st.Shape, st.Tracked)
	}
	addLeaf()
	maxSteps := 30
	if thorough() {
		maxSteps = 50
	}
	nsteps := rapid.IntRange(3, maxSteps).Draw(t, "nsteps")
	bursted, manyRoots := false, false
	noProbe := map[int]bool{}
	for len(c.Steps) < nsteps {
		switch k := rapid.IntRange(0, 11).Draw(t, "kind"); {
		case k <= 1:
			addLeaf()
			if x := len(m.e) - 1; !manyRoots && m.e[x].leaf && m.e[x].tracked && rapid.IntRange(0, 19).Draw(t, "manyroots") == 0 {
				// once per history at most: 16..40 (rarely 260) results computed from one fresh
				// tracked leaf, all built first, then back-propagated one by one - the leaf
				// receives that many contributions and is used that many times
				manyRoots = true
				k := rapid.SampledFrom([]int{15, 16, 17, 20, 31, 32, 33, 40}).Draw(t, "nroots")
				if rapid.IntRange(0, 29).Draw(t, "hugeroots") == 0 {
					k = 256 // exactly: a use counter of eight bits is back at zero
				}
				first := len(m.e)
				for i := 0; i < k; i++ {
					u := prog.Node{Op: "scale", In: []int{x}, F: float64(i%7) + 0.5}
					c.Steps = append(c.Steps, HStep{Kind: "op", Node: &u})
					m.addOp(u, m.e[x].shape)
					if i < k-1 {
						noProbe[len(m.e)-1] = true
					}
				}
				for i := 0; i < k; i++ {
					if m.bpEnabled(first + i) {
						c.Steps = append(c.Steps, HStep{Kind: "bp", X: first + i})
						m.bp(first + i)
					}
				}
				nsteps += 2 * k
			}
		case k <= 7:
			n, rs := drawHistOp(t, m, prog.AllOps)
			c.Steps = append(c.Steps, HStep{Kind: "op", Node: &n})
			m.addOp(n, rs)
			if !bursted && rapid.IntRange(0, 29).Draw(t, "burst") == 0 {
				// once per history at most: a long chain of unary ops on the newest tensor (deep
				// graphs with many contexts); the chain's interior is left out of the probe sweeps
				bursted = true
				for b := rapid.IntRange(30, 80).Draw(t, "burstlen"); b > 0; b-- {
					u := prog.Node{Op: []string{"sin", "tanh", "cos"}[b%3], In: []int{len(m.e) - 1}}
					c.Steps = append(c.Steps, HStep{Kind: "op", Node: &u})
					m.addOp(u, m.e[len(m.e)-1].shape)
					if b > 1 {
						noProbe[len(m.e)-1] = true
					}
				}
				nsteps += 85
			}
		case k <= 9:
			x := rapid.IntRange(0, len(m.e)-1).Draw(t, "bp")
			if len(m.e) > 2 && rapid.Bool().Draw(t, "bprecent") {
				x = rapid.IntRange(len(m.e)-2, len(m.e)-1).Draw(t, "bpr")
			}
			if !m.bpEnabled(x) {
				addLeaf() // "create leaf" is always enabled
				continue
			}
			c.Steps = append(c.Steps, HStep{Kind: "bp", X: x})
			m.bp(x)
		case k == 10:
			x := rapid.IntRange(0, len(m.e)-1).Draw(t, "reset")
			if !m.resetEnabled(x) {
				addLeaf()
				continue
			}
			tr := rapid.Bool().Draw(t, "resettracked")
			c.Steps = append(c.Steps, HStep{Kind: "reset", X: x, Tracked: tr})
			m.reset(x, tr)
		default:
			var withGrad []int
			for i := range m.e {
				if m.e[i].hasGrad {
					withGrad = append(withGrad, i)
				}
			}
			if len(withGrad) == 0 {
				addLeaf()
				continue
			}
			x := rapid.SampledFrom(withGrad).Draw(t, "gradof")
			c.Steps = append(c.Steps, HStep{Kind: "grad", X: x})
			m.addGrad(x)
		}
	}
	// probe sweep: tracked-ness is only observable through a later back-propagation
	n0 := len(m.e)
	for x := 0; x < n0; x++ {
		if m.e[x].cmpOfSpent || noProbe[x] {
			continue
		}
		n := prog.Node{Op: "scale", In: []int{x}, F: 1}
		c.Steps = append(c.Steps, HStep{Kind: "op", Node: &n, Probe: true})
		m.addOp(n, m.e[x].shape)
		p := len(m.e) - 1
		if m.bpEnabled(p) {
			c.Steps = append(c.Steps, HStep{Kind: "bp", X: p, Probe: true})
			m.bp(p)
		}
	}
	// mix probe: whether an untracked tensor is spent is only observable by combining it with
	// a fresh tracked tensor - the result is tracked (and the fresh tensor receives a gradient)
	// exactly when the other operand is not spent
	for x := 0; x < n0; x++ {
		if m.e[x].cmpOfSpent || noProbe[x] {
			continue
		}
		s := m.e[x].shape
		c.Steps = append(c.Steps, HStep{Kind: "leaf", Shape: ref.Cp(s), Vals: prog.DrawValsMode(t, ref.Prod(s), x, "std"), Tracked: true, Probe: true})
		m.addLeaf(s, true)
		f := len(m.e) - 1
		n := prog.Node{Op: "add", In: []int{x, f}}
		c.Steps = append(c.Steps, HStep{Kind: "op", Node: &n, Probe: true})
		m.addOp(n, s)
		p := len(m.e) - 1
		if m.bpEnabled(p) {
			c.Steps = append(c.Steps, HStep{Kind: "bp", X: p, Probe: true})
			m.bp(p)
		}
	}
	return c
}

/* ---------- checking: library and model in lock-step ---------- */

func snapAll(pool []tensor.Tensor) ([]lib.Snapshot, error) {
	out := make([]lib.Snapshot, len(pool))
	for i, x := range pool {
		s, err := lib.Snap(x)
		if err != nil {
			return nil, fmt.Errorf("tensor %d: %w", i, err)
		}
		out[i] = s
	}
	return out, nil
}

func checkC08(c C08Case) *Failure {
	m := &trackModel{}
	var pool []tensor.Tensor
	var twin []tensor.Tensor // same history, every leaf untracked; nil where not computable
	prev, err := snapAll(pool)
	if err != nil {
		return failf("%v", err)
	}
	var sawOpOnSpent, sawResetThenGraph, sawSecondBP, sawGradOperand, sawAlias bool
	bps, resets := 0, 0
	for si, st := range c.Steps {
		changed := map[int]bool{}
		switch st.Kind {
		case "leaf":
			x, tw, ok, err := buildLeaf(st)
			if !ok {
				return nil
			}
			if err != nil {
				return failf("step %d: cannot create leaf: %v", si, err)
			}
			pool = append(pool, x)
			twin = append(twin, tw)
			m.addLeaf(st.Shape, st.Tracked)
		case "op":
			if st.Node == nil {
				return nil
			}
			n := *st.Node
			for _, o := range n.In {
				if o < 0 || o >= len(pool) || m.e[o].cmpOfSpent {
					return nil // malformed or unspecified: outside the quantifier
				}
			}
			rs, err := prog.ResultShape(n, m.shapes())
			if err != nil {
				return nil
			}
			in := make([]tensor.Tensor, len(n.In))
			tin := make([]tensor.Tensor, len(n.In))
			twinOK := true
			for k, o := range n.In {
				in[k] = pool[o]
				tin[k] = twin[o]
				if twin[o] == nil {
					twinOK = false
				}
				if m.e[o].spent && !st.Probe {
					sawOpOnSpent = true
				}
				if m.e[o].isGrad {
					sawGradOperand = true
				}
			}
			y, err := prog.ApplyLib(n, in, nil)
			if err != nil {
				return failf("step %d: %s rejected valid operands: %v", si, n.Op, err)
			}
			pool = append(pool, y)
			if twinOK {
				ty, err := prog.ApplyLib(n, tin, nil)
				if err != nil {
					return failf("step %d: %s on untracked twins failed: %v", si, n.Op, err)
				}
				twin = append(twin, ty)
				if f := sameTensors(fmt.Sprintf("step %d: %s forward value with vs without tracking", si, n.Op), y, ty, false); f != nil {
					return f
				}
			} else {
				twin = append(twin, nil)
			}
			m.addOp(n, rs)
			if resets > 0 && m.e[len(m.e)-1].tracked {
				sawResetThenGraph = true
			}
		case "bp":
			if st.X < 0 || st.X >= len(pool) || !m.bpEnabled(st.X) {
				return nil
			}
			if err := tensor.BackPropagate(pool[st.X]); err != nil {
				return failf("step %d: BackPropagate(tensor %d) returned error: %v", si, st.X, err)
			}
			set := m.bp(st.X)
			for _, x := range set {
				m.e[x].gradAt = si + 1
				for i := range pool {
					if m.e[i] == m.e[x] {
						changed[i] = true
					}
				}
			}
			if len(set) > 0 {
				bps++
				if bps >= 2 && sawResetThenGraph {
					sawSecondBP = true
				}
			}
		case "reset":
			if st.X < 0 || st.X >= len(pool) || !m.resetEnabled(st.X) {
				return nil
			}
			pool[st.X].ResetGradContext(st.Tracked)
			m.reset(st.X, st.Tracked)
			m.e[st.X].resetAt = si + 1
			// every handle of the same tensor object shares the entry and may change with it
			for i := range pool {
				if m.e[i] == m.e[st.X] {
					changed[i] = true
				}
			}
			resets++
		case "grad":
			if st.X < 0 || st.X >= len(pool) || !m.e[st.X].hasGrad {
				return nil
			}
			g := pool[st.X].Gradient()
			if g == nil {
				return failf("step %d: tensor %d should have a gradient (model) but Gradient() is nil", si, st.X)
			}
			// Gradient() may hand out a tensor object that is in the pool already (the library
			// passes one gradient object on to several tensors, e.g. through Add): the handles
			// then share one model entry
			alias := -1
			for i := range pool {
				if pool[i] == g {
					alias = i
					break
				}
			}
			pool = append(pool, g)
			twin = append(twin, nil)
			if alias >= 0 {
				a := m.e[alias]
				if a.resetAt > 0 && m.e[st.X].gradAt > a.resetAt && !a.spent {
					return failf("step %d: the gradient that the back-propagation of step %d delivered to tensor %d is tensor %d, which ResetGradContext had turned into a fresh leaf at step %d: a gradient tensor is not untracked / spent", si, m.e[st.X].gradAt-1, st.X, alias, a.resetAt-1)
				}
				m.e = append(m.e, a)
				sawAlias = true
			} else {
				m.addGrad(st.X)
			}
		default:
			return nil
		}
		// invariant over all tensors of the pool
		cur, err := snapAll(pool)
		if err != nil {
			return failf("step %d (%s): %v", si, st.Kind, err)
		}
		for i := range pool {
			if cur[i].HasG != m.e[i].hasGrad {
				return failf("step %d (%s%s): tensor %d Gradient() non-nil = %v, specified %v (model: tracked=%v spent=%v leaf=%v)", si, st.Kind, probeTag(st), i, cur[i].HasG, m.e[i].hasGrad, m.e[i].tracked, m.e[i].spent, m.e[i].leaf)
			}
			if cur[i].HasG && !ref.EqShape(cur[i].GS, cur[i].Shape) {
				return failf("step %d (%s): tensor %d has gradient of shape %v, own shape %v", si, st.Kind, i, cur[i].GS, cur[i].Shape)
			}
			if i >= len(prev) {
				continue
			}
			if changed[i] {
				// only the gradient may change, never shape or elements
				a, b := prev[i], cur[i]
				a.HasG, a.GS, a.GV, b.HasG, b.GS, b.GV = false, nil, nil, false, nil, nil
				if !a.Equal(b) {
					return failf("step %d (%s): forward value of tensor %d changed", si, st.Kind, i)
				}
				continue
			}
			if !prev[i].Equal(cur[i]) {
				return failf("step %d (%s%s on tensor %d): tensor %d changed (value or gradient) although the step cannot reach it", si, st.Kind, probeTag(st), st.X, i)
			}
		}
		prev = cur
	}
	evid.Eval()
	evid.ClassN("C08.steps", len(c.Steps))
	evid.ClassN("C08.backpropagations_from_tracked_roots", bps)
	evid.ClassN("C08.resets", resets)
	nt := false
	if sawOpOnSpent && bps > 0 {
		evid.Class("C08.op_on_spent_tensor")
		nt = true
	}
	if sawSecondBP {
		evid.Class("C08.reset_then_new_graph_then_bp")
		nt = true
	}
	if sawGradOperand {
		evid.Class("C08.gradient_tensor_as_operand")
	}
	if sawAlias {
		evid.Class("C08.aliased_gradient_handles")
	}
	if nt {
		evid.NonTrivial(c)
	}
	return nil
}

// buildLeaf creates the leaf of a step (X: 0 TensorOf, 1 Full(0.75), 2 Eye, 3 Zeros, 4 Ones)
// and its untracked twin; ok is false for a malformed step.
func buildLeaf(st HStep) (x, twin tensor.Tensor, ok bool, err error) {
	if !ref.ValidDims(st.Shape) {
		return nil, nil, false, nil
	}
	mk := func(tracked bool) (tensor.Tensor, error) {
		switch st.X {
		case 1:
			return tensor.Full(ref.Cp(st.Shape), 0.75, lib.Conf(tracked))
		case 2:
			if len(st.Shape) != 2 || st.Shape[0] != st.Shape[1] {
				return nil, fmt.Errorf("malformed")
			}
			return tensor.Eye(st.Shape[0], lib.Conf(tracked))
		case 3:
			return tensor.Zeros(ref.Cp(st.Shape), lib.Conf(tracked))
		case 4:
			return tensor.Ones(ref.Cp(st.Shape), lib.Conf(tracked))
		}
		if len(st.Vals) != ref.Prod(st.Shape) {
			return nil, fmt.Errorf("malformed")
		}
		return lib.New(st.Shape, st.Vals, tracked)
	}
	x, err = mk(st.Tracked)
	if err != nil && err.Error() == "malformed" {
		return nil, nil, false, nil
	}
	if err != nil {
		return nil, nil, true, err
	}
	twin, err = mk(false)
	return x, twin, true, err
}

func probeTag(st HStep) string {
	if st.Probe {
		return ", probe sweep"
	}
	return ""
}

func TestC08_history(t *testing.T) {
	run(t, 5000, func(rt *rapid.T) {
		c := genC08(rt)
		if f := guard(func() *Failure { return checkC08(c) }); f != nil {
			fail(rt, "C08/history", c, f)
		}
	})
}
