package checks

import (
	"math"
	"testing"

	"github.com/sahandsafizadeh/qeep/component/metrics"
	"github.com/sahandsafizadeh/qeep/tensor"
	"pgregory.net/rapid"

	"qeepverif/evid"
	"qeepverif/lib"
	"qeepverif/ref"
)

// AccStep: "acc" accumulates predictions P against targets T (equal lengths; Bad == -1: one
// tensor object serves as both); "bad" is an invalid call (Bad: 1 nil prediction, 2 nil target,
// 3 rank-0 inputs, 4 rank-2 inputs, 9 a target that is a foreign implementation of the Tensor interface, 5 mismatched lengths, 6 / 7 one rank-2 / rank-0 tensor
// object as both operands, 8 prediction of shape PS and target of shape TS, all ones, where
// not both are rank-1 of one length); "result" reads Result().
type AccStep struct {
	Kind string    `json:"kind"`
	P    []float64 `json:"p,omitempty"`
	T    []float64 `json:"t,omitempty"`
	Bad  int       `json:"bad,omitempty"`
	PS   []int     `json:"ps,omitempty"`
	TS   []int     `json:"ts,omitempty"`
}

// roleShape draws the shape of one operand around a batch of n: the valid [n] or a near miss.
func roleShape(t *rapid.T, n int, label string) []int {
	switch rapid.IntRange(0, 8).Draw(t, label) {
	case 0:
		return []int{}
	case 1:
		return []int{1, n}
	case 2:
		return []int{n, 1}
	case 3:
		return []int{n, 2}
	case 4:
		return []int{n + 1}
	case 5:
		return []int{1, 1, n}
	case 6:
		return []int{n, 1, 1}
	}
	return []int{n}
}

func onesOf(shape []int) tensor.Tensor {
	v := make([]float64, ref.Prod(shape))
	for i := range v {
		v[i] = 1
	}
	return lib.MustNew(shape, v, false)
}

// C19Case: a history on one Accuracy object; Cuts re-partitions the accepted data for a twin.
type C19Case struct {
	Steps []AccStep `json:"steps"`
	Cuts  []int     `json:"cuts"`
	// Other: a second Accuracy object (constructed before (1) or after (2) the checked one)
	// accumulates a batch of its own - two of three positions match - before every step
	Other int `json:"other,omitempty"`
	// Quiet: Result is not read between the steps (explicit "result" steps are skipped too),
	// only once at the end
	Quiet bool `json:"quiet,omitempty"`
	// Zero: the checked object is a zero-value struct (&metrics.Accuracy{}, new, var) instead
	// of the constructor's result
	Zero int `json:"zero,omitempty"`
}

// foreignTarget is a Tensor implementation of the harness (it wraps a library tensor): the
// library's operations reject it.
type foreignTarget struct{ tensor.Tensor }

func init() { register("C19/accuracy", checkC19) }

func genC19(t *rapid.T) C19Case {
	var c C19Case
	alphabet := []float64{0, 1, 2, 3}
	switch rapid.IntRange(0, 5).Draw(t, "floats") {
	case 0:
		alphabet = []float64{-1.5, 0.25, 1e-3, 2e-3, 7, 1e6}
	case 1: // both zeros (they are equal), labels of either sign
		alphabet = []float64{0, math.Copysign(0, -1), 1, -1}
	case 2: // different labels whose differences (and their squares) are far below anything ordinary
		alphabet = []float64{1e-200, 2e-200, 0, -3e-180, 3e-180, 1e-170}
	case 3: // labels that other frameworks reserve (ignore index, padding, void class): ordinary labels here
		alphabet = []float64{-100, -1, 255, 0, 1, -99}
		evid.Class("C19.labels_reserved_elsewhere")
	}
	n := rapid.IntRange(0, 12).Draw(t, "nsteps")
	if rapid.IntRange(0, 9).Draw(t, "longhistory") == 0 {
		n = rapid.IntRange(20, 80).Draw(t, "nstepslong")
	}
	total := 0
	for i := 0; i < n; i++ {
		switch k := rapid.IntRange(0, 9).Draw(t, "kind"); {
		case k <= 5:
			m := rapid.IntRange(1, 8).Draw(t, "batch")
			if rapid.IntRange(0, 5).Draw(t, "bigbatch") == 0 {
				m = rapid.IntRange(9, 300).Draw(t, "bigm")
			}
			st := AccStep{Kind: "acc", P: make([]float64, m), T: make([]float64, m)}
			if rapid.IntRange(0, 7).Draw(t, "aliased") == 0 {
				st.Bad = -1 // valid call with one tensor object as prediction and target
			}
			for j := 0; j < m; j++ {
				st.P[j] = rapid.SampledFrom(alphabet).Draw(t, "p")
				st.T[j] = rapid.SampledFrom(alphabet).Draw(t, "t")
				if rapid.IntRange(0, 2).Draw(t, "tie") == 0 {
					st.T[j] = st.P[j]
				}
			}
			total += m
			c.Steps = append(c.Steps, st)
		case k <= 7:
			m := rapid.IntRange(1, 4).Draw(t, "badlen")
			st := AccStep{Kind: "bad", Bad: rapid.IntRange(1, 9).Draw(t, "bad"), P: make([]float64, m), T: make([]float64, m)}
			for j := 0; j < m; j++ {
				st.P[j], st.T[j] = 1, 1 // would all match if they were counted
			}
			if st.Bad == 8 {
				// each role's shape drawn on its own; a pair that happens to be valid is an
				// ordinary accepted batch
				st.PS, st.TS = roleShape(t, m, "pshape"), roleShape(t, m, "tshape")
				if len(st.PS) == 1 && len(st.TS) == 1 && st.PS[0] == st.TS[0] {
					k := st.PS[0]
					st = AccStep{Kind: "acc", P: make([]float64, k), T: make([]float64, k)}
					total += k
				}
			}
			c.Steps = append(c.Steps, st)
		default:
			c.Steps = append(c.Steps, AccStep{Kind: "result"})
		}
	}
	if rapid.IntRange(0, 2).Draw(t, "otherobject") == 0 {
		c.Other = rapid.IntRange(1, 2).Draw(t, "otherwhen")
	}
	c.Quiet = rapid.IntRange(0, 2).Draw(t, "quiet") == 0
	if rapid.IntRange(0, 5).Draw(t, "zerovalue") == 0 {
		c.Zero = rapid.IntRange(1, 3).Draw(t, "zeroform")
	}
	for pos := 0; pos < total; {
		pos += rapid.IntRange(1, 9).Draw(t, "cut")
		c.Cuts = append(c.Cuts, pos)
	}
	return c
}

func vec(v []float64) tensor.Tensor { return lib.MustNew([]int{len(v)}, v, false) }

func checkC19(c C19Case) *Failure {
	var other *metrics.Accuracy
	if c.Other == 1 {
		other = metrics.NewAccuracy()
	}
	acc := metrics.NewAccuracy()
	switch c.Zero {
	case 1:
		acc = &metrics.Accuracy{}
	case 2:
		acc = new(metrics.Accuracy)
	case 3:
		var zv metrics.Accuracy
		acc = &zv
	}
	if c.Zero > 0 {
		evid.Class("C19.zero_value_struct")
	}
	if c.Other == 2 {
		other = metrics.NewAccuracy()
	}
	otherCalls := 0
	matched, total := 0, 0
	var allP, allT []float64
	expect := func() float64 {
		if total == 0 {
			return 0
		}
		return float64(matched) / float64(total)
	}
	read := func(where string) *Failure {
		r, err := acc.Result()
		if err != nil {
			return failf("%s: Result returned error: %v", where, err)
		}
		if r != expect() {
			return failf("%s: Result = %v, matched/total = %d/%d = %v", where, r, matched, total, expect())
		}
		if r < 0 || r > 1 {
			return failf("%s: Result = %v outside [0,1]", where, r)
		}
		return nil
	}
	if !c.Quiet {
		if f := read("before any call"); f != nil {
			return f
		}
	}
	sizes := map[int]bool{}
	accepted, rejected, rejectedBetween := 0, 0, false
	for si, st := range c.Steps {
		if other != nil {
			if err := other.Accumulate(vec([]float64{1, 2, 3}), vec([]float64{1, 5, 3})); err != nil {
				return failf("step %d: a second Accuracy object rejected a valid batch: %v", si, err)
			}
			otherCalls++
			if r, err := other.Result(); err != nil || r != 2.0/3.0 {
				return failf("step %d: a second Accuracy object that saw %d batches with 2 of 3 matches reports %v (%v)", si, otherCalls, r, err)
			}
		}
		switch st.Kind {
		case "acc":
			if len(st.P) == 0 || len(st.P) != len(st.T) {
				return nil
			}
			pv, tv := st.P, st.T
			var pt, tt tensor.Tensor = vec(pv), nil
			if st.Bad == -1 {
				tv, tt = pv, pt // the same tensor object twice
			} else {
				tt = vec(tv)
			}
			if err := acc.Accumulate(pt, tt); err != nil {
				return failf("step %d: Accumulate rejected two rank-1 tensors of length %d: %v", si, len(pv), err)
			}
			for j := range pv {
				if pv[j] == tv[j] {
					matched++
				}
			}
			total += len(pv)
			allP = append(allP, pv...)
			allT = append(allT, tv...)
			sizes[len(st.P)] = true
			if accepted > 0 && rejected > 0 {
				rejectedBetween = true
			}
			accepted++
		case "bad":
			if len(st.P) == 0 || len(st.P) != len(st.T) {
				return nil
			}
			var p, t tensor.Tensor = vec(st.P), vec(st.T)
			switch st.Bad {
			case 1:
				p = nil
			case 2:
				t = nil
			case 3:
				p, t = lib.MustNew(nil, []float64{1}, false), lib.MustNew(nil, []float64{1}, false)
			case 4:
				p, t = lib.MustNew([]int{1, len(st.P)}, st.P, false), lib.MustNew([]int{1, len(st.T)}, st.T, false)
			case 5:
				t = vec(append(append([]float64{}, st.T...), 1))
			case 6: // one rank-2 tensor object as both operands
				p = lib.MustNew([]int{1, len(st.P)}, st.P, false)
				t = p
			case 7: // one rank-0 tensor object as both operands
				p = lib.MustNew(nil, []float64{1}, false)
				t = p
			case 9: // a target that is another implementation of the Tensor interface
				t = foreignTarget{t}
			case 8:
				if !ref.ValidDims(st.PS) || !ref.ValidDims(st.TS) || ref.Prod(st.PS) > 4096 || ref.Prod(st.TS) > 4096 ||
					(len(st.PS) == 1 && len(st.TS) == 1 && st.PS[0] == st.TS[0]) {
					return nil
				}
				p, t = onesOf(st.PS), onesOf(st.TS)
			default:
				return nil
			}
			if err := acc.Accumulate(p, t); err == nil {
				if st.Bad == 8 {
					return failf("step %d: Accumulate accepted a prediction of shape %v with a target of shape %v", si, st.PS, st.TS)
				}
				return failf("step %d: invalid Accumulate call (kind %d) returned no error", si, st.Bad)
			}
			rejected++
		case "result":
		default:
			return nil
		}
		if !c.Quiet {
			if f := read("after step " + itoa(si) + " (" + st.Kind + ")"); f != nil {
				return f
			}
		}
	}
	if f := read("at the end"); f != nil {
		return f
	}
	// the same data split differently gives exactly the same result
	twin := metrics.NewAccuracy()
	pos := 0
	for _, cut := range c.Cuts {
		if cut > len(allP) {
			cut = len(allP)
		}
		if cut <= pos {
			continue
		}
		if err := twin.Accumulate(vec(allP[pos:cut]), vec(allT[pos:cut])); err != nil {
			return failf("twin: Accumulate failed: %v", err)
		}
		pos = cut
	}
	if pos < len(allP) {
		if err := twin.Accumulate(vec(allP[pos:]), vec(allT[pos:])); err != nil {
			return failf("twin: Accumulate failed: %v", err)
		}
	}
	r1, _ := acc.Result()
	r2, err := twin.Result()
	if err != nil || r1 != r2 {
		return failf("Result depends on the batch split: %v vs %v after re-partitioning (%v)", r1, r2, err)
	}
	evid.Eval()
	if other != nil && otherCalls > 0 {
		evid.Class("C19.second_object_in_use")
	}
	if c.Quiet && accepted >= 9 {
		evid.Class("C19.nine_or_more_batches_without_reading_the_result")
	}
	if accepted >= 16 {
		evid.Class("C19.sixteen_or_more_accepted_batches")
	}
	evid.ClassN("C19.accepted_batches", accepted)
	evid.ClassN("C19.rejected_calls", rejected)
	if len(sizes) >= 2 && rejectedBetween {
		evid.Class("C19.different_batch_sizes_with_rejected_call_between")
		evid.NonTrivial(c)
	}
	return nil
}

func itoa(i int) string {
	if i == 0 {
		return "0"
	}
	s := ""
	for i > 0 {
		s = string(rune('0'+i%10)) + s
		i /= 10
	}
	return s
}

func TestC19_accuracy(t *testing.T) {
	run(t, 10000, func(rt *rapid.T) {
		c := genC19(rt)
		if f := guard(func() *Failure { return checkC19(c) }); f != nil {
			fail(rt, "C19/accuracy", c, f)
		}
	})
}
