package checks

import (
	"fmt"
	"math"
	"testing"

	"github.com/sahandsafizadeh/qeep/tensor"
	"pgregory.net/rapid"

	"qeepverif/evid"
	"qeepverif/lib"
	"qeepverif/prog"
	"qeepverif/ref"
)

// VJPCase: one application of an operation to fresh leaves, back-propagated with the upstream
// weighting G (applied as BackPropagate(y.Mul(G)), G untracked) and with all ones.
type VJPCase struct {
	P prog.Program `json:"p"`
	G []float64    `json:"g"`
	// Fan: how many operations consume the result before the root (weightedRoot)
	Fan int `json:"fan,omitempty"`
	// Bystander: further tensors are derived from the result and from every operand but take no
	// part in the back-propagated root; built before (1) or after (2) the root
	Bystander int `json:"bystander,omitempty"`
	// ResetLeaves: every tracked leaf is reset to a fresh tracked leaf after the forward pass,
	// right before BackPropagate ("zero the gradients, then backward")
	ResetLeaves bool `json:"reset_leaves,omitempty"`
	// ShareUntracked: the all-ones run reuses the untracked operand objects of the weighted run,
	// which was back-propagated in between
	ShareUntracked bool `json:"share_untracked,omitempty"`
	// Extra (1 + operand index, 0 = none): a second graph x*c over that tracked leaf operand is
	// built before the first back-propagation and back-propagated after it; the gradients add up
	// on x and nothing else changes
	Extra int `json:"extra,omitempty"`
	// Crowd (0 or 7..17) and CrowdOn: the tracked operand CrowdOn is consumed by Crowd further
	// operations (scalings by dyadic factors that sum to 1) inside the SAME back-propagated graph:
	// the root is the concatenation of the flattened weighted result and the flattened scalings,
	// so that operand's gradient grows by exactly 1 per element
	Crowd   int `json:"crowd,omitempty"`
	CrowdOn int `json:"crowd_on,omitempty"`
}

func init() {
	register("C02/vjp", func(c VJPCase) *Failure { return checkVJP(c, "C02") })
	register("C07/bcast", func(c VJPCase) *Failure { return checkVJP(c, "C07") })
}

func genVJP(t *rapid.T, ops []string, expand bool) VJPCase {
	op := rapid.SampledFrom(ops).Draw(t, "op")
	cfg := prog.SingleCfg{MaxRank: 5, MaxDim: 4, MaxElems: 200, Expand: expand}
	p := prog.GenSingle(t, op, cfg)
	// every non-empty subset of tracked operands
	any := false
	for i := range p.Leaves {
		p.Leaves[i].Tracked = rapid.IntRange(0, 2).Draw(t, "tracked") > 0
		any = any || p.Leaves[i].Tracked
	}
	if !any {
		p.Leaves[rapid.IntRange(0, len(p.Leaves)-1).Draw(t, "forcetracked")].Tracked = true
	}
	// sometimes one operand of an operation that is smooth everywhere holds one constant in
	// every element (the neutral elements 0 and 1 among them)
	if constOK[op] && rapid.IntRange(0, 7).Draw(t, "constoperand") == 0 {
		k := rapid.IntRange(0, len(p.Leaves)-1).Draw(t, "constwhich")
		cv := rapid.SampledFrom([]float64{0, 1, -1, 2}).Draw(t, "constval")
		if op == "div" && cv == 0 {
			cv = 1
		}
		for i := range p.Leaves[k].Vals {
			p.Leaves[k].Vals[i] = cv
		}
	}
	large := false
	if (op == "exp" || op == "sinh" || op == "cosh" || op == "tanh" || op == "sin" || op == "cos") && rapid.IntRange(0, 5).Draw(t, "largeargs") == 0 {
		large = true
		// arguments of magnitude 300..700: results and derivatives near the end of the float64
		// range, yet finite (squares and products of them are not)
		v := p.Leaves[0].Vals
		for i := range v {
			v[i] = float64(rapid.IntRange(300, 700).Draw(t, "large")) + 0.37
			if rapid.Bool().Draw(t, "largeneg") {
				v[i] = -v[i]
			}
		}
	}
	in := make([]ref.T, len(p.Nodes[0].In))
	for k, o := range p.Nodes[0].In {
		in[k] = ref.FromVals(p.Leaves[o].Shape, p.Leaves[o].Vals)
	}
	r, err := prog.ApplyRef(nil, p.Nodes[0], in)
	if err != nil {
		t.Fatalf("generator produced an invalid call: %v (%+v)", err, p.Nodes[0])
	}
	// sometimes the result is passed through one or two further structural operations before
	// it is weighted and back-propagated (the rule under test then runs inside a longer chain)
	// (no post-operations in the large-argument regime: a SumAlong over results 170 orders of
	// magnitude apart has no well-conditioned value to compare)
	if !large && rapid.IntRange(0, 3).Draw(t, "post") == 0 {
		np := rapid.IntRange(1, 2).Draw(t, "npost")
		for i := 0; i < np; i++ {
			prev := len(p.Leaves) + len(p.Nodes) - 1
			n := drawPostNode(t, r.Shape, prev)
			nr, err := prog.ApplyRef(nil, n, []ref.T{r})
			if err != nil || len(nr.E) == 0 {
				break
			}
			p.Nodes = append(p.Nodes, n)
			r = nr
		}
	}
	// sometimes a tracked operand is itself the result of a tracked (identity) derivation
	for i := range p.Leaves {
		if p.Leaves[i].Tracked && rapid.IntRange(0, 3).Draw(t, "pre") == 0 {
			p.Leaves[i].Pre = rapid.IntRange(1, prog.NPre-1).Draw(t, "prekind")
		}
	}
	c := VJPCase{P: p}
	c.G = drawWeights(t, len(r.E))
	c.Fan = drawFan(t)
	if rapid.IntRange(0, 3).Draw(t, "bystander") == 0 {
		c.Bystander = rapid.IntRange(1, 2).Draw(t, "bystanderwhen")
	}
	if rapid.IntRange(0, 5).Draw(t, "crowd") == 0 {
		k := rapid.IntRange(0, len(p.Leaves)-1).Draw(t, "crowdon")
		if p.Leaves[k].Tracked {
			c.Crowd, c.CrowdOn = rapid.IntRange(7, 17).Draw(t, "crowdn"), k
		}
	}
	c.ResetLeaves = rapid.IntRange(0, 4).Draw(t, "resetleaves") == 0
	c.ShareUntracked = rapid.IntRange(0, 2).Draw(t, "shareuntracked") == 0
	if rapid.IntRange(0, 4).Draw(t, "extra") == 0 {
		k := rapid.IntRange(0, len(p.Leaves)-1).Draw(t, "extrawhich")
		if p.Leaves[k].Tracked && p.Leaves[k].Pre == 0 {
			c.Extra = k + 1
		}
	}
	return c
}

// drawWeights draws an upstream weighting: mostly generic values, otherwise weightings under
// which parts of the vector-Jacobian product vanish or cancel exactly (small integers, all
// zeros, a single non-zero entry, an alternating +-c pattern).
func drawWeights(t *rapid.T, n int) []float64 {
	g := make([]float64, n)
	switch rapid.IntRange(0, 9).Draw(t, "wmode") {
	case 0:
		for i := range g {
			g[i] = float64(rapid.IntRange(-2, 2).Draw(t, "wi"))
		}
	case 1: // all zero
	case 2:
		g[rapid.IntRange(0, n-1).Draw(t, "hot")] = float64(rapid.IntRange(1, 3).Draw(t, "hotv"))
	case 3:
		c := float64(rapid.IntRange(1, 3).Draw(t, "alt"))
		for i := range g {
			g[i] = c
			if i%2 == 1 {
				g[i] = -c
			}
		}
	default:
		return prog.DrawValsMode(t, n, 5, "std")
	}
	return g
}

// constOK: operations differentiable at constant operands (no kinks, no domain limits except
// a zero divisor, which genVJP avoids).
var constOK = map[string]bool{"add": true, "sub": true, "mul": true, "div": true, "dot": true, "matmul": true, "concat": true,
	"patch": true, "slice": true, "transpose": true, "reshape": true, "unsqueeze": true, "squeeze": true, "flatten": true,
	"broadcast": true, "sumalong": true, "avgalong": true, "meanalong": true, "scale": true, "exp": true, "sin": true, "cos": true,
	"sinh": true, "cosh": true, "tanh": true}

// drawPostNode draws a structural operation applicable to a tensor of the given shape.
func drawPostNode(t *rapid.T, shape []int, prev int) prog.Node {
	rank := len(shape)
	var opts []string
	opts = append(opts, "scale", "reshape", "slice")
	if rank < 6 {
		opts = append(opts, "unsqueeze", "unsqueeze_last")
	}
	if rank >= 1 {
		opts = append(opts, "flatten", "sumalong")
	}
	if rank >= 2 {
		opts = append(opts, "transpose")
	}
	n := prog.Node{In: []int{prev}}
	switch op := rapid.SampledFrom(opts).Draw(t, "postop"); op {
	case "scale":
		n.Op, n.F = "scale", 1.5
	case "reshape":
		n.Op, n.S = "reshape", prog.DrawFactorization(t, ref.Prod(shape), 6)
	case "slice":
		n.Op, n.R = "slice", prog.DrawIndex(t, shape)
	case "unsqueeze":
		n.Op, n.I = "unsqueeze", rapid.IntRange(0, rank).Draw(t, "postdim")
	case "unsqueeze_last":
		n.Op, n.I = "unsqueeze", rank
	case "flatten":
		n.Op, n.I = "flatten", rapid.IntRange(0, rank-1).Draw(t, "postdim")
	case "sumalong":
		n.Op, n.I = "sumalong", rapid.IntRange(0, rank-1).Draw(t, "postdim")
	default:
		n.Op = "transpose"
	}
	return n
}

func expansionFactor(src, dst []int) int { return ref.Prod(dst) / ref.Prod(src) }

// checkVJP is the oracle of C02 and C07.
func checkVJP(c VJPCase, property string) *Failure {
	if len(c.P.Nodes) < 1 || len(c.P.Nodes) > 3 {
		return failf("malformed case")
	}
	node := c.P.Nodes[0]
	nl := len(c.P.Leaves)
	last := nl + len(c.P.Nodes) - 1
	seed := make([]bool, last+1)
	for i, l := range c.P.Leaves {
		seed[i] = l.Tracked
	}
	vals, slot, ctx, err := prog.RunRef(c.P, seed, false)
	if err != nil {
		return nil // not a valid call: outside the quantifier
	}
	if ctx.MinGap < 1e-6 || ctx.MinStd < 1e-3 {
		evid.Discard("near_kink")
		return nil
	}
	root := vals[last]
	opResult := vals[nl]
	if len(c.G) != len(root.E) {
		return failf("malformed case: %d weights for %d result elements", len(c.G), len(root.E))
	}
	for _, e := range root.E {
		if math.IsNaN(e.V) || math.IsInf(e.V, 0) {
			return nil // operand outside the operation's domain
		}
	}
	var avgVals []ref.T
	var avgSlot []int

	var shared []tensor.Tensor
	for variant := 0; variant < 2; variant++ {
		var w []float64
		if variant == 0 {
			w = c.G
		}
		lib.ResetAncestors()
		var reuse []tensor.Tensor
		if variant == 1 && c.ShareUntracked {
			reuse = shared
		}
		lv, bases, err := prog.RunLibReuse(c.P, reuse)
		if err != nil {
			return failf("%s rejected valid arguments: %v", node.Op, err)
		}
		if variant == 0 {
			shared = make([]tensor.Tensor, nl)
			for i, l := range c.P.Leaves {
				if !l.Tracked {
					shared[i] = lv[i]
				}
			}
		}
		y := lv[last]
		ys, yv, err := lib.Read(y)
		if err != nil {
			return failf("%s result unreadable: %v", node.Op, err)
		}
		if !ref.EqShape(ys, root.Shape) {
			return failf("%s result shape %v, defined shape %v", node.Op, ys, root.Shape)
		}
		for k := range yv {
			if !closeTo(yv[k], root.E[k].V, math.Abs(root.E[k].V)) {
				return failf("%s forward element %d = %v, defined %v", node.Op, k, yv[k], root.E[k].V)
			}
		}
		bystanders := func() {
			// tensors computed from the result and the operands that the root does not depend on
			_ = lv[nl].Scale(2)
			_ = y.Scale(2)
			_, _ = y.Mul(y)
			if len(ys) >= 1 {
				_, _ = y.Flatten(0)
			}
			for i := range c.P.Leaves {
				_ = lv[i].Scale(3)
				_, _ = lv[i].Add(lv[i])
			}
		}
		if c.Bystander == 1 {
			bystanders()
		}
		z := y
		if variant == 0 {
			z, err = weightedRoot(y, root.Shape, c.G, c.Fan)
			if err != nil {
				return failf("weighting the result failed: %v", err)
			}
		}
		// optional second graph over one tracked leaf operand, built before any back-propagation
		var extra tensor.Tensor
		var extraC []float64
		if k := c.Extra - 1; k >= 0 && k < nl && c.P.Leaves[k].Tracked && bases[k] == nil {
			extraC = make([]float64, len(c.P.Leaves[k].Vals))
			for j := range extraC {
				extraC[j] = 0.5 + 0.25*float64(j%5)
			}
			extra, err = lv[k].Mul(lib.MustNew(c.P.Leaves[k].Shape, extraC, false))
			if err != nil {
				return failf("building a second graph over operand %d failed: %v", k, err)
			}
		}
		crowded := false
		if k := c.CrowdOn; c.Crowd >= 2 && c.Crowd <= 64 && k >= 0 && k < nl && c.P.Leaves[k].Tracked {
			zf, err := z.Reshape([]int{z.NElems()})
			if err != nil {
				return failf("flattening the root failed: %v", err)
			}
			parts := []tensor.Tensor{zf}
			for _, f := range crowdFactors(c.Crowd) {
				pf, err := lv[k].Scale(f).Reshape([]int{lv[k].NElems()})
				if err != nil {
					return failf("flattening a scaled operand failed: %v", err)
				}
				parts = append(parts, pf)
			}
			if z, err = tensor.Concat(parts, 0); err != nil {
				return failf("concatenating %d rank-1 tensors failed: %v", len(parts), err)
			}
			crowded = true
		}
		if c.Bystander == 2 {
			bystanders()
		}
		if c.P.UseResult {
			lib.Warm(y) // every kind of call on the result; none of it reaches the root
		}
		if c.ResetLeaves {
			for i, l := range c.P.Leaves {
				if !l.Tracked {
					continue
				}
				if bases[i] != nil {
					bases[i].ResetGradContext(true)
				} else {
					lv[i].ResetGradContext(true)
				}
			}
		}
		if err := tensor.BackPropagate(z); err != nil {
			return failf("%s was accepted but BackPropagate failed (weighted=%v): %v", node.Op, variant == 0, err)
		}
		if extra != nil {
			if err := tensor.BackPropagate(extra); err != nil {
				return failf("BackPropagate of a second graph over operand %d failed: %v", c.Extra-1, err)
			}
		}
		if tr := c.P.Tracked(); tr[nl] {
			if f := rootGradientIsOnes(z); f != nil {
				return failf("%s (weighted=%v, root topology %d): %s", node.Op, variant == 0, c.Fan, f.Msg)
			}
		}
		if c.P.Disturb {
			prog.Disturbance(c.P, true)
		}
		for i, l := range c.P.Leaves {
			holders := []tensor.Tensor{lv[i]}
			names := []string{fmt.Sprintf("operand %d", i)}
			if bases[i] != nil {
				holders = append(holders, bases[i])
				names[0] = fmt.Sprintf("operand %d (itself derived from a tracked leaf by identity derivation %d)", i, l.Pre)
				names = append(names, fmt.Sprintf("the leaf behind operand %d (identity derivation %d)", i, l.Pre))
			}
			for h, holder := range holders {
				who := names[h]
				g := holder.Gradient()
				if !l.Tracked {
					if g != nil {
						return failf("%s: untracked %s received a gradient", node.Op, who)
					}
					continue
				}
				if g == nil {
					return failf("%s: tracked %s received no gradient (weighted=%v)", node.Op, who, variant == 0)
				}
				gs, gv, err := lib.Read(g)
				if err != nil {
					return failf("%s: gradient of %s unreadable: %v", node.Op, who, err)
				}
				if !ref.EqShape(gs, l.Shape) {
					return failf("%s: gradient of %s has shape %v, operand shape %v (weighted=%v)", node.Op, who, gs, l.Shape, variant == 0)
				}
				want, wsc := prog.Adjoint(root, w, slot[i], len(l.Vals))
				if extra != nil && i == c.Extra-1 {
					for k := range want {
						want[k] += extraC[k]
						wsc[k] += extraC[k]
					}
				}
				if crowded && i == c.CrowdOn {
					for k := range want {
						want[k]++
						wsc[k]++
					}
				}
				bad := -1
				for k := range gv {
					if !closeTo(gv[k], want[k], wsc[k]) {
						bad = k
						break
					}
				}
				if bad < 0 {
					continue
				}
				// known finding D2: the gradient through an expansion is the mean, not the sum
				if evid.MatcherOpen(property, "bcast_avg") && allFinite(gv) {
					if avgVals == nil {
						avgVals, avgSlot, _, _ = prog.RunRef(c.P, seed, true)
					}
					aw, asc := prog.Adjoint(avgVals[last], w, avgSlot[i], len(l.Vals))
					if extra != nil && i == c.Extra-1 {
						for k := range aw {
							aw[k] += extraC[k]
							asc[k] += extraC[k]
						}
					}
					if crowded && i == c.CrowdOn {
						for k := range aw {
							aw[k]++
							asc[k]++
						}
					}
					match := true
					for k := range gv {
						if !closeTo(gv[k], aw[k], asc[k]) {
							match = false
							break
						}
					}
					if match {
						evid.Known("D2-"+property, map[string]any{"case": c, "operand": i, "got": gv, "sum_over_copies": want})
						continue
					}
				}
				if math.IsNaN(gv[bad]) || math.IsInf(gv[bad], 0) {
					return failf("%s: gradient of %s is not finite: [%d] = %v, vector-Jacobian product = %v (weighted=%v)", node.Op, who, bad, gv[bad], want[bad], variant == 0)
				}
				return failf("%s: gradient of %s [%d] = %v, vector-Jacobian product = %v (weighted=%v)", node.Op, who, bad, gv[bad], want[bad], variant == 0)
			}
		}
		if err := lib.CheckAncestors(); err != nil {
			return failf("%s: after the call and its back-propagation, %v", node.Op, err)
		}
	}
	evid.Eval()
	evid.Class(property + ".op=" + node.Op)
	if len(c.P.Nodes) > 1 {
		evid.Class(property + ".followed_by_structural_ops")
	}
	for _, l := range c.P.Leaves {
		if l.Tracked && l.Pre > 0 {
			evid.Class(property + ".operand_is_a_tracked_intermediate")
			break
		}
	}
	if c.Fan > 0 {
		evid.Class(property + ".result_has_several_consumers")
		evid.Class(fmt.Sprintf("%s.root_topology=%d", property, c.Fan))
	}
	if c.Crowd > 0 {
		evid.Class(property + ".operand_with_7_or_more_consumers_in_the_graph")
	}
	if c.Bystander > 0 {
		evid.Class(property + ".bystander_consumers")
	}
	if c.ResetLeaves {
		evid.Class(property + ".leaves_reset_between_forward_and_backward")
	}
	if c.Extra > 0 {
		evid.Class(property + ".second_graph_over_an_operand")
	}
	zero, cancel := true, 0.0
	for _, g := range c.G {
		zero = zero && g == 0
		cancel += g
	}
	if zero {
		evid.Class(property + ".all_zero_weighting")
	} else if cancel == 0 {
		evid.Class(property + ".weighting_sums_to_zero")
	}
	classifyVJP(c, property, opResult)
	return nil
}

func classifyVJP(c VJPCase, property string, root ref.T) {
	node := c.P.Nodes[0]
	maxRank := 0
	for _, o := range node.In {
		if r := len(c.P.Leaves[o].Shape); r > maxRank {
			maxRank = r
		}
	}
	if property == "C02" {
		nt := maxRank >= 2
		switch node.Op {
		case "slice", "patch":
			if len(node.R) < maxRank {
				evid.Class("C02.partial_index")
				nt = true
			}
			for _, r := range node.R {
				if r.From == 0 && r.To == 0 {
					evid.Class("C02.whole_dim_range")
					nt = true
					break
				}
			}
		case "concat":
			if len(node.In) >= 3 {
				evid.Class("C02.concat>=3")
				nt = true
			}
		case "dot":
			if maxRank >= 2 {
				evid.Class("C02.dot_batched")
			}
		case "matmul":
			if maxRank >= 3 {
				evid.Class("C02.matmul_batched")
			}
		}
		if prog.IsAlong(node.Op) && node.I > 0 && node.I < maxRank-1 {
			evid.Class("C02.interior_dim")
			nt = true
		}
		if len(node.In) >= 2 && node.In[0] == node.In[1] {
			evid.Class("C02.same_operand_twice")
		}
		tr := 0
		for _, l := range c.P.Leaves {
			if l.Tracked {
				tr++
			}
		}
		if tr < len(c.P.Leaves) {
			evid.Class("C02.partially_tracked")
		}
		evid.Class(fmt.Sprintf("C02.rank=%d", maxRank))
		if nt && len(c.G) >= 2 {
			evid.NonTrivial(c)
		}
		return
	}
	// C07
	factor := 1
	newLeading, oneExpanded := false, false
	for _, o := range node.In {
		src := c.P.Leaves[o].Shape
		var dst []int
		switch node.Op {
		case "broadcast":
			dst = node.S
		case "add", "sub", "mul", "div":
			dst = root.Shape
		case "dot":
			dst = append(ref.Cp(root.Shape), src[len(src)-1])
		case "matmul":
			dst = append(ref.Cp(root.Shape[:len(root.Shape)-2]), src[len(src)-2:]...)
		}
		if f := expansionFactor(src, dst); f > factor {
			factor = f
		}
		if len(dst) > len(src) {
			newLeading = true
		}
		off := len(dst) - len(src)
		for k, d := range src {
			if d == 1 && dst[off+k] > 1 {
				oneExpanded = true
			}
		}
	}
	if factor == 1 {
		evid.Class("C07.factor=1")
	} else {
		evid.Class("C07.factor>1")
		evid.NonTrivial(c)
	}
	if newLeading {
		evid.Class("C07.new_leading_dims")
	}
	if oneExpanded {
		evid.Class("C07.size1_dim_expanded")
	}
	if newLeading && oneExpanded {
		evid.Class("C07.both_at_once")
	}
	if len(node.In) == 2 {
		a, b := c.P.Leaves[node.In[0]].Shape, c.P.Leaves[node.In[1]].Shape
		if ref.Prod(a) < ref.Prod(b) {
			evid.Class("C07.first_operand_expanded")
		} else if ref.Prod(b) < ref.Prod(a) {
			evid.Class("C07.second_operand_expanded")
		}
	}
}

func TestC02_vjp(t *testing.T) {
	run(t, 20000, func(rt *rapid.T) {
		c := genVJP(rt, prog.Differentiable33, false)
		if f := guard(func() *Failure { return checkVJP(c, "C02") }); f != nil {
			fail(rt, "C02/vjp", c, f)
		}
	})
}

var c07Ops = []string{"broadcast", "broadcast", "add", "sub", "mul", "div", "dot", "matmul"}

func TestC07_bcast(t *testing.T) {
	run(t, 10000, func(rt *rapid.T) {
		c := genVJP(rt, c07Ops, true)
		if f := guard(func() *Failure { return checkVJP(c, "C07") }); f != nil {
			fail(rt, "C07/bcast", c, f)
		}
	})
}
