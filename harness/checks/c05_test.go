package checks

import (
	"fmt"
	"math"
	"testing"

	"github.com/sahandsafizadeh/qeep/tensor"
	"pgregory.net/rapid"

	"qeepverif/evid"
	"qeepverif/lib"
	"qeepverif/prog"
	"qeepverif/ref"
)

// C05Case: one reduction. Op is an Along form (sumalong..meanalong, dim in node.I) or a
// whole-tensor statistic (sum max min avg var std mean).
type C05Case struct {
	P prog.Program `json:"p"`
	// More: further reductions applied afterwards to the same tensor object, each judged like
	// the first (a reduction must not depend on, or disturb, what was computed before)
	More []prog.Node `json:"more,omitempty"`
}

func init() { register("C05/reduce", checkC05) }

var c05Stats = []string{"sum", "max", "min", "avg", "var", "std", "mean"}

func genC05(t *rapid.T) C05Case {
	stat := rapid.SampledFrom(c05Stats).Draw(t, "stat")
	along := rapid.IntRange(0, 2).Draw(t, "along") > 0
	cfg := prog.SingleCfg{MaxRank: 6, MaxDim: 4, MaxElems: 400, Distinct: rapid.Bool().Draw(t, "distinctdims")}
	var p prog.Program
	if along {
		p = prog.GenSingle(t, stat+"along", cfg)
	} else {
		p = prog.GenSingle(t, "flatten", cfg) // any leaf of rank >= 1 ...
		if rapid.IntRange(0, 5).Draw(t, "scalar") == 0 {
			p.Leaves[0].Shape = []int{} // ... or a scalar
			p.Leaves[0].Vals = p.Leaves[0].Vals[:1]
		}
		p.Nodes[0] = prog.Node{Op: stat, In: []int{0}}
	}
	v := p.Leaves[0].Vals
	switch rapid.IntRange(0, 8).Draw(t, "valmode") {
	case 1: // all negative: exposes a fold identity of 0 in Max
		for i := range v {
			v[i] = -math.Abs(v[i]) - 0.3
		}
	case 2: // all positive: exposes a fold identity of 0 in Min
		for i := range v {
			v[i] = math.Abs(v[i]) + 0.3
		}
	case 3: // mixed magnitudes
		for i := range v {
			v[i] *= rapid.SampledFrom([]float64{1, 1, 1e-3, 1e3, 1e6}).Draw(t, "mag")
		}
	case 5: // constant data (every deviation from the mean is 0) in values that are not dyadic
		k := rapid.SampledFrom([]float64{0.1, 0.2, 0.7, 3.3, -0.1, 1e-3, 100.1}).Draw(t, "const")
		for i := range v {
			v[i] = k
		}
	case 6: // constant fibres along the reduced dimension
		if along {
			sh, dim := p.Leaves[0].Shape, p.Nodes[0].I
			for i := range v {
				idx := ref.Unravel(i, sh)
				idx[dim] = 0
				v[i] = 0.1 * float64(1+ref.Ravel(idx, sh)%7)
			}
		}
	case 8: // whole numbers near 2^53 and 2^63 (sums beyond the int64 range, odd integers above 2^53)
		for i := range v {
			v[i] = rapid.SampledFrom([]float64{1 << 53, 1<<53 + 2, 1 << 61, 1 << 62, 6e18, 9e18, -(1 << 62), -6e18, 4611686018427387904, 3}).Draw(t, "bigint")
		}
	case 7: // small spread on a large common offset
		off := rapid.SampledFrom([]float64{1e4, 1e6, -1e6, 1e8}).Draw(t, "offset")
		for i := range v {
			v[i] += off
		}
	case 4: // extrema of any finite values: huge / tiny magnitudes of one sign or mixed
		if stat == "max" || stat == "min" {
			sign := rapid.SampledFrom([]float64{1, -1, 0}).Draw(t, "sign")
			for i := range v {
				m := rapid.SampledFrom([]float64{1e-300, 1e-40, 1e39, 1e100, 1e300, 4e38}).Draw(t, "extreme")
				v[i] = m * (1 + float64(i%7)/8)
				if sign < 0 || (sign == 0 && rapid.Bool().Draw(t, "neg")) {
					v[i] = -v[i]
				}
			}
		}
	}
	p.Leaves[0].Tracked = rapid.IntRange(0, 3).Draw(t, "tracked") == 0 // values do not depend on tracking
	c := C05Case{P: p}
	if rapid.IntRange(0, 2).Draw(t, "more") == 0 {
		rank := len(p.Leaves[0].Shape)
		nmore := rapid.IntRange(1, 3).Draw(t, "nmore")
		if rapid.IntRange(0, 4).Draw(t, "manymore") == 0 {
			nmore = rapid.IntRange(6, 12).Draw(t, "nmoremany") // a long series on one tensor object
		}
		if rank >= 3 && nmore >= 6 && rapid.Bool().Draw(t, "sweep") {
			// one mean-type statistic along every dimension, then along every dimension again in
			// another order
			st := rapid.SampledFrom([]string{"mean", "avg", "var", "std", "sum"}).Draw(t, "sweepstat")
			for pass := 0; pass < 2; pass++ {
				for _, d := range rapid.Permutation(seq(rank)).Draw(t, "sweeporder") {
					c.More = append(c.More, prog.Node{Op: st + "along", In: []int{0}, I: d})
				}
			}
			nmore = 0
		}
		for k := nmore; k > 0; k-- {
			st := rapid.SampledFrom(c05Stats).Draw(t, "morestat")
			if rank >= 1 && rapid.Bool().Draw(t, "morealong") {
				c.More = append(c.More, prog.Node{Op: st + "along", In: []int{0}, I: rapid.IntRange(0, rank-1).Draw(t, "moredim")})
			} else {
				c.More = append(c.More, prog.Node{Op: st, In: []int{0}})
			}
		}
	}
	return c
}

func statOfFibre(stat string, f []float64) (want, tol float64) {
	n := float64(len(f))
	sum, sumAbs, maxAbs := 0.0, 0.0, 0.0
	mx, mn := math.Inf(-1), math.Inf(1)
	for _, x := range f {
		sum += x
		sumAbs += math.Abs(x)
		maxAbs = math.Max(maxAbs, math.Abs(x))
		mx = math.Max(mx, x)
		mn = math.Min(mn, x)
	}
	const eps = 1e-9
	switch stat {
	case "sum":
		return sum, eps * sumAbs
	case "max":
		return mx, 0
	case "min":
		return mn, 0
	case "avg", "mean":
		return sum / n, eps * sumAbs / n
	}
	// two-pass unbiased variance; 0 for a single element
	v := 0.0
	if len(f) > 1 {
		m := sum / n
		for _, x := range f {
			v += (x - m) * (x - m)
		}
		v /= n - 1
	}
	// a sum of squared deviations from the mean carries a relative error; the rounding of the
	// mean itself (relative n*2^-53 of the largest magnitude) enters squared
	tv := eps*v + 1e-20*maxAbs*maxAbs
	if stat == "var" {
		return v, tv
	}
	s := math.Sqrt(v)
	if v > 4*tv {
		return s, tv / s
	}
	return s, 2 * math.Sqrt(tv)
}

func checkC05(c C05Case) *Failure {
	if len(c.P.Nodes) != 1 || len(c.P.Leaves) != 1 || len(c.More) > 16 {
		return failf("malformed case")
	}
	l := c.P.Leaves[0]
	lib.ResetAncestors()
	x, err := lib.NewVia(l.Shape, l.Vals, l.Tracked, l.Via)
	if err != nil {
		return failf("cannot build operand: %v", err)
	}
	for k, n := range append([]prog.Node{c.P.Nodes[0]}, c.More...) {
		f, skip := checkReduction(c, x, n, k)
		if f != nil {
			if k > 0 {
				f.Msg = fmt.Sprintf("reduction %d on the same tensor object (after %s): %s", k+1, c.P.Nodes[0].Op, f.Msg)
			}
			return f
		}
		if skip {
			return nil
		}
	}
	if len(c.More) > 0 {
		evid.Class("C05.several_reductions_of_one_tensor")
	}
	if len(c.More) >= 6 {
		evid.Class("C05.seven_or_more_reductions_of_one_tensor")
	}
	if err := lib.CheckAncestors(); err != nil {
		return failf("after the reductions, %v", err)
	}
	return nil
}

// checkReduction judges one reduction of x (which holds leaf 0's values); k > 0 marks a
// follow-up reduction on the same object.
func checkReduction(c C05Case, x tensor.Tensor, n prog.Node, k int) (*Failure, bool) {
	l := c.P.Leaves[0]
	scalarOf := func(stat string) float64 {
		switch stat {
		case "sum":
			return x.Sum()
		case "max":
			return x.Max()
		case "min":
			return x.Min()
		case "avg":
			return x.Avg()
		case "var":
			return x.Var()
		case "std":
			return x.Std()
		}
		return x.Mean()
	}
	rank := len(l.Shape)
	constant := true
	for _, v := range l.Vals {
		constant = constant && v == l.Vals[0]
	}
	if !prog.IsAlong(n.Op) {
		known := false
		for _, st := range c05Stats {
			known = known || st == n.Op
		}
		if !known {
			return nil, true
		}
		want, tol := statOfFibre(n.Op, l.Vals)
		got := scalarOf(n.Op)
		if math.IsNaN(got) || math.Abs(got-want) > tol {
			return failf("%s() of shape %v = %v, defined %v", n.Op, l.Shape, got, want), false
		}
		if (n.Op == "var" || n.Op == "std") && got < 0 {
			return failf("%s() of shape %v = %v is negative", n.Op, l.Shape, got), false
		}
		if n.Op == "avg" || n.Op == "mean" {
			if a, m := x.Avg(), x.Mean(); !lib.SameBits(a, m) {
				return failf("Avg() = %v but Mean() = %v", a, m), false
			}
		}
		if n.Op == "std" {
			if v := x.Var(); !(math.Abs(got*got-v) <= 1e-9*math.Max(1, v)) && !(math.IsInf(v, 1) && math.IsInf(got*got, 1)) {
				return failf("Std()^2 = %v but Var() = %v", got*got, v), false
			}
		}
		evid.Eval()
		evid.Class("C05.op=" + n.Op)
		if k > 0 {
			return nil, false
		}
		evid.Class(fmt.Sprintf("C05.rank=%d", rank))
		neg := true
		for _, v := range l.Vals {
			if v >= 0 {
				neg = false
			}
		}
		if neg {
			evid.Class("C05.all_negative")
		}
		if len(l.Vals) == 1 {
			evid.Class("C05.single_element")
		}
		if constant && len(l.Vals) > 1 {
			evid.Class("C05.constant_data")
		}
		if rank >= 3 || neg || len(l.Vals) == 1 {
			evid.NonTrivial(c)
		}
		return nil, false
	}
	stat := n.Op[:len(n.Op)-5]
	dim := n.I
	if dim < 0 || dim >= rank {
		return nil, true
	}
	y, err := prog.ApplyLib(n, []tensor.Tensor{x}, nil)
	if err != nil {
		return failf("%s(%d) rejected on shape %v: %v", n.Op, dim, l.Shape, err), false
	}
	if c.P.UseResult {
		// the result is used further (UnSqueeze back to the operand's rank among others) before
		// anything is read
		lib.Warm(y)
		if k, err := y.UnSqueeze(dim); err == nil {
			lib.Warm(k)
		}
	}
	ys, yv, err := lib.Read(y)
	if err != nil {
		return failf("%s result unreadable: %v", n.Op, err), false
	}
	os := append(ref.Cp(l.Shape[:dim]), l.Shape[dim+1:]...)
	if !ref.EqShape(ys, os) {
		return failf("%s(%d) of shape %v has shape %v, defined %v", n.Op, dim, l.Shape, ys, os), false
	}
	idx := make([]int, rank)
	for i := range yv {
		oidx := ref.Unravel(i, os)
		copy(idx, oidx[:dim])
		copy(idx[dim+1:], oidx[dim:])
		fib := make([]float64, l.Shape[dim])
		for k := range fib {
			idx[dim] = k
			fib[k] = l.Vals[ref.Ravel(idx, l.Shape)]
		}
		want, tol := statOfFibre(stat, fib)
		if math.IsNaN(yv[i]) || math.Abs(yv[i]-want) > tol {
			return failf("%s(%d) of shape %v: element %v = %v, statistic of its fibre = %v", n.Op, dim, l.Shape, oidx, yv[i], want), false
		}
		if (stat == "var" || stat == "std") && yv[i] < 0 {
			return failf("%s(%d) of shape %v: element %v = %v is negative", n.Op, dim, l.Shape, oidx, yv[i]), false
		}
	}
	if rank == 1 {
		// the Along form of a rank-1 tensor is the whole-tensor statistic
		s := scalarOf(stat)
		_, tol := statOfFibre(stat, l.Vals)
		if !(math.Abs(yv[0]-s) <= 2*tol) && !lib.SameNum(yv[0], s) {
			return failf("%s(0) of a rank-1 tensor = %v but %s() = %v", n.Op, yv[0], stat, s), false
		}
	}
	evid.Eval()
	evid.Class("C05.op=" + n.Op)
	if k > 0 {
		return nil, false
	}
	evid.Class(fmt.Sprintf("C05.rank=%d", rank))
	nt := false
	if rank >= 3 && dim > 0 && dim < rank-1 {
		evid.Class("C05.interior_dim")
		nt = true
	}
	if l.Shape[dim] == 1 {
		evid.Class("C05.fibre_length_1")
		nt = true
	}
	neg := true
	for _, v := range l.Vals {
		if v >= 0 {
			neg = false
		}
	}
	if neg {
		evid.Class("C05.all_negative")
		nt = true
	}
	if constant && l.Shape[dim] > 1 {
		evid.Class("C05.constant_data")
	}
	if nt {
		evid.NonTrivial(c)
	}
	return nil, false
}

func TestC05_reduce(t *testing.T) {
	run(t, 20000, func(rt *rapid.T) {
		c := genC05(rt)
		if f := guard(func() *Failure { return checkC05(c) }); f != nil {
			fail(rt, "C05/reduce", c, f)
		}
	})
}
