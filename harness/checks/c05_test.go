package checks

import (
	"fmt"
	"math"
	"testing"

	"github.com/sahandsafizadeh/qeep/tensor"
	"pgregory.net/rapid"

	"qeepverif/evid"
	"qeepverif/lib"
	"qeepverif/prog"
	"qeepverif/ref"
)

// C05Case: one reduction. Op is an Along form (sumalong..meanalong, dim in node.I) or a
// whole-tensor statistic (sum max min avg var std mean).
type C05Case struct {
	P prog.Program `json:"p"`
}

func init() { register("C05/reduce", checkC05) }

var c05Stats = []string{"sum", "max", "min", "avg", "var", "std", "mean"}

func genC05(t *rapid.T) C05Case {
	stat := rapid.SampledFrom(c05Stats).Draw(t, "stat")
	along := rapid.IntRange(0, 2).Draw(t, "along") > 0
	cfg := prog.SingleCfg{MaxRank: 6, MaxDim: 4, MaxElems: 400, Distinct: rapid.Bool().Draw(t, "distinctdims")}
	var p prog.Program
	if along {
		p = prog.GenSingle(t, stat+"along", cfg)
	} else {
		p = prog.GenSingle(t, "flatten", cfg) // any leaf of rank >= 1 ...
		if rapid.IntRange(0, 5).Draw(t, "scalar") == 0 {
			p.Leaves[0].Shape = []int{} // ... or a scalar
			p.Leaves[0].Vals = p.Leaves[0].Vals[:1]
		}
		p.Nodes[0] = prog.Node{Op: stat, In: []int{0}}
	}
	v := p.Leaves[0].Vals
	switch rapid.IntRange(0, 4).Draw(t, "valmode") {
	case 1: // all negative: exposes a fold identity of 0 in Max
		for i := range v {
			v[i] = -math.Abs(v[i]) - 0.3
		}
	case 2: // all positive: exposes a fold identity of 0 in Min
		for i := range v {
			v[i] = math.Abs(v[i]) + 0.3
		}
	case 3: // mixed magnitudes
		for i := range v {
			v[i] *= rapid.SampledFrom([]float64{1, 1, 1e-3, 1e3, 1e6}).Draw(t, "mag")
		}
	case 4: // extrema of any finite values: huge / tiny magnitudes of one sign or mixed
		if stat == "max" || stat == "min" {
			sign := rapid.SampledFrom([]float64{1, -1, 0}).Draw(t, "sign")
			for i := range v {
				m := rapid.SampledFrom([]float64{1e-300, 1e-40, 1e39, 1e100, 1e300, 4e38}).Draw(t, "extreme")
				v[i] = m * (1 + float64(i%7)/8)
				if sign < 0 || (sign == 0 && rapid.Bool().Draw(t, "neg")) {
					v[i] = -v[i]
				}
			}
		}
	}
	return C05Case{P: p}
}

func statOfFibre(stat string, f []float64) (want, tol float64) {
	n := float64(len(f))
	sum, sumAbs, maxAbs := 0.0, 0.0, 0.0
	mx, mn := math.Inf(-1), math.Inf(1)
	for _, x := range f {
		sum += x
		sumAbs += math.Abs(x)
		maxAbs = math.Max(maxAbs, math.Abs(x))
		mx = math.Max(mx, x)
		mn = math.Min(mn, x)
	}
	const eps = 1e-9
	switch stat {
	case "sum":
		return sum, eps * sumAbs
	case "max":
		return mx, 0
	case "min":
		return mn, 0
	case "avg", "mean":
		return sum / n, eps * sumAbs / n
	}
	// two-pass unbiased variance; 0 for a single element
	v := 0.0
	if len(f) > 1 {
		m := sum / n
		for _, x := range f {
			v += (x - m) * (x - m)
		}
		v /= n - 1
	}
	tv := eps * maxAbs * maxAbs
	if stat == "var" {
		return v, tv
	}
	s := math.Sqrt(v)
	if v > 4*tv {
		return s, tv / s
	}
	return s, 2 * math.Sqrt(tv)
}

func checkC05(c C05Case) *Failure {
	if len(c.P.Nodes) != 1 || len(c.P.Leaves) != 1 {
		return failf("malformed case")
	}
	n := c.P.Nodes[0]
	l := c.P.Leaves[0]
	x, err := lib.NewVia(l.Shape, l.Vals, l.Tracked, l.Via)
	if err != nil {
		return failf("cannot build operand: %v", err)
	}
	scalarOf := func(stat string) float64 {
		switch stat {
		case "sum":
			return x.Sum()
		case "max":
			return x.Max()
		case "min":
			return x.Min()
		case "avg":
			return x.Avg()
		case "var":
			return x.Var()
		case "std":
			return x.Std()
		}
		return x.Mean()
	}
	rank := len(l.Shape)
	if !prog.IsAlong(n.Op) {
		want, tol := statOfFibre(n.Op, l.Vals)
		got := scalarOf(n.Op)
		if math.IsNaN(got) || math.Abs(got-want) > tol {
			return failf("%s() of shape %v = %v, defined %v", n.Op, l.Shape, got, want)
		}
		if n.Op == "avg" || n.Op == "mean" {
			if a, m := x.Avg(), x.Mean(); !lib.SameBits(a, m) {
				return failf("Avg() = %v but Mean() = %v", a, m)
			}
		}
		if n.Op == "std" {
			if v := x.Var(); math.Abs(got*got-v) > 1e-9*math.Max(1, v) {
				return failf("Std()^2 = %v but Var() = %v", got*got, v)
			}
		}
		evid.Eval()
		evid.Class("C05.op=" + n.Op)
		evid.Class(fmt.Sprintf("C05.rank=%d", rank))
		neg := true
		for _, v := range l.Vals {
			if v >= 0 {
				neg = false
			}
		}
		if neg {
			evid.Class("C05.all_negative")
		}
		if len(l.Vals) == 1 {
			evid.Class("C05.single_element")
		}
		if rank >= 3 || neg || len(l.Vals) == 1 {
			evid.NonTrivial(c)
		}
		return nil
	}
	stat := n.Op[:len(n.Op)-5]
	dim := n.I
	if dim < 0 || dim >= rank {
		return nil
	}
	y, err := prog.ApplyLib(n, []tensor.Tensor{x}, nil)
	if err != nil {
		return failf("%s(%d) rejected on shape %v: %v", n.Op, dim, l.Shape, err)
	}
	ys, yv, err := lib.Read(y)
	if err != nil {
		return failf("%s result unreadable: %v", n.Op, err)
	}
	os := append(ref.Cp(l.Shape[:dim]), l.Shape[dim+1:]...)
	if !ref.EqShape(ys, os) {
		return failf("%s(%d) of shape %v has shape %v, defined %v", n.Op, dim, l.Shape, ys, os)
	}
	idx := make([]int, rank)
	for i := range yv {
		oidx := ref.Unravel(i, os)
		copy(idx, oidx[:dim])
		copy(idx[dim+1:], oidx[dim:])
		fib := make([]float64, l.Shape[dim])
		for k := range fib {
			idx[dim] = k
			fib[k] = l.Vals[ref.Ravel(idx, l.Shape)]
		}
		want, tol := statOfFibre(stat, fib)
		if math.IsNaN(yv[i]) || math.Abs(yv[i]-want) > tol {
			return failf("%s(%d) of shape %v: element %v = %v, statistic of its fibre = %v", n.Op, dim, l.Shape, oidx, yv[i], want)
		}
	}
	if rank == 1 {
		// the Along form of a rank-1 tensor is the whole-tensor statistic
		s := scalarOf(stat)
		_, tol := statOfFibre(stat, l.Vals)
		if math.Abs(yv[0]-s) > 2*tol {
			return failf("%s(0) of a rank-1 tensor = %v but %s() = %v", n.Op, yv[0], stat, s)
		}
	}
	evid.Eval()
	evid.Class("C05.op=" + n.Op)
	evid.Class(fmt.Sprintf("C05.rank=%d", rank))
	nt := false
	if rank >= 3 && dim > 0 && dim < rank-1 {
		evid.Class("C05.interior_dim")
		nt = true
	}
	if l.Shape[dim] == 1 {
		evid.Class("C05.fibre_length_1")
		nt = true
	}
	neg := true
	for _, v := range l.Vals {
		if v >= 0 {
			neg = false
		}
	}
	if neg {
		evid.Class("C05.all_negative")
		nt = true
	}
	if nt {
		evid.NonTrivial(c)
	}
	return nil
}

func TestC05_reduce(t *testing.T) {
	run(t, 20000, func(rt *rapid.T) {
		c := genC05(rt)
		if f := guard(func() *Failure { return checkC05(c) }); f != nil {
			fail(rt, "C05/reduce", c, f)
		}
	})
}
