package checks

import (
	"fmt"
	"math"
	"testing"

	"github.com/sahandsafizadeh/qeep/tensor"
	"pgregory.net/rapid"

	"qeepverif/evid"
	"qeepverif/lib"
	"qeepverif/prog"
	"qeepverif/ref"
)

// C03Case: one element-wise operation (or "equals") on fresh untracked or tracked leaves.
type C03Case struct {
	P prog.Program `json:"p"`
	// Series: further unary calls (operation and scalar argument) made afterwards on the first
	// operand object, each judged like the first: 17 or more distinct ones, then some of the
	// earlier ones again, newest first
	Series []prog.Node `json:"series,omitempty"`
	// Chain: the series is applied as a chain - every call takes the previous call's result
	// object as its operand (judged against the scalar function of that result's elements as
	// read back), e.g. Pow of a Pow result, Exp of a Scale result
	Chain bool `json:"chain,omitempty"`
}

var seriesScale = []float64{-2, -1, -0.5, 0, 0.25, 0.5, 1, 1.5, 2, 3}
var seriesPow = []float64{-2, -1, 0, 0.5, 1, 2, 3}

// drawUnarySeries: n distinct (operation, argument) pairs, then the first ones again in
// reverse order.
func drawUnarySeries(t *rapid.T) []prog.Node {
	var all []prog.Node
	for _, u := range prog.Unary {
		switch u {
		case "scale":
			for _, f := range seriesScale {
				all = append(all, prog.Node{Op: u, In: []int{0}, F: f})
			}
		case "pow":
			for _, f := range seriesPow {
				all = append(all, prog.Node{Op: u, In: []int{0}, F: f})
			}
		default:
			all = append(all, prog.Node{Op: u, In: []int{0}})
		}
	}
	perm := rapid.Permutation(seq(len(all))).Draw(t, "seriesorder")
	n := rapid.IntRange(17, len(all)).Draw(t, "serieslen")
	var s []prog.Node
	for _, k := range perm[:n] {
		s = append(s, all[k])
	}
	for i := n - 2; i >= 0 && i >= n-2-rapid.IntRange(4, 20).Draw(t, "seriesback"); i-- {
		s = append(s, s[i])
	}
	return s
}

func init() { register("C03/elementwise", checkC03) }

var c03Ops = func() []string {
	var o []string
	o = append(o, prog.Unary...)
	o = append(o, prog.Arith...)
	o = append(o, prog.Arith...) // broadcasting is the richest part: twice the weight
	o = append(o, prog.ElSel...)
	o = append(o, prog.Cmp...)
	o = append(o, "equals")
	return o
}()

func genC03(t *rapid.T) C03Case {
	op := rapid.SampledFrom(c03Ops).Draw(t, "op")
	cfg := prog.SingleCfg{MaxRank: 6, MaxDim: 4, MaxElems: 600, Expand: true, Wild: true}
	genOp := op
	if op == "equals" {
		genOp = "eq"
	}
	if op == "eq" || op == "ne" || op == "equals" {
		// identical or far apart pairs only, as the quantifier says
		cfg.Wild = false
	}
	p := prog.GenSingle(t, genOp, cfg)
	if prog.IsCmp(genOp) || genOp == "elmax" || genOp == "elmin" {
		if rapid.Bool().Draw(t, "ties") {
			prog.Ties(t, &p)
		}
		if (op == "equals" || op == "eq" || op == "ne") && len(p.Leaves) == 2 {
			a, b := p.Leaves[0].Vals, p.Leaves[1].Vals
			switch rapid.IntRange(0, 6).Draw(t, "pairkind") {
			case 0: // identical
				copy(b, a)
			case 1: // identical except for two swapped positions (the differences cancel exactly)
				copy(b, a)
				if len(b) >= 2 {
					i := rapid.IntRange(0, len(b)-1).Draw(t, "swapi")
					j := rapid.IntRange(0, len(b)-1).Draw(t, "swapj")
					b[i], b[j] = b[j], b[i]
				}
			case 2: // identical except for one position
				copy(b, a)
				b[rapid.IntRange(0, len(b)-1).Draw(t, "diffi")] += 0.5
			case 3: // a reversed
				for i := range a {
					b[i] = a[len(a)-1-i]
				}
			case 4: // identical except that some positions differ in the last bit only (two
				// different numbers, hundreds of orders of magnitude above 1e-240 apart)
				copy(b, a)
				for i := range b {
					if math.Abs(b[i]) > 1e-100 && rapid.IntRange(0, 2).Draw(t, "ulp") == 0 {
						b[i] = math.Nextafter(b[i], math.Inf(1-2*(i%2)))
					}
				}
			}
		}
	}
	if (op == "add" || op == "sub" || op == "mul" || op == "div") && rapid.IntRange(0, 11).Draw(t, "nearconstant") == 0 {
		// an operand whose elements are all equal except for NaNs in drawn positions, or zeros of
		// both signs: the operation is still the scalar function element by element
		v := p.Leaves[rapid.IntRange(0, len(p.Leaves)-1).Draw(t, "ncwhich")].Vals
		k := rapid.SampledFrom([]float64{7, 2.5, 0, 1}).Draw(t, "constant")
		zeros := rapid.IntRange(0, 3).Draw(t, "signedzeros") == 0
		for j := range v {
			v[j] = k
			if zeros {
				v[j] = math.Copysign(0, float64(1-2*rapid.IntRange(0, 1).Draw(t, "zsign")))
			} else if rapid.IntRange(0, 3).Draw(t, "nanhere") == 0 {
				v[j] = math.NaN()
			}
		}
	}
	p.Nodes[0].Op = op
	for i := range p.Leaves {
		p.Leaves[i].Tracked = rapid.IntRange(0, 3).Draw(t, "tracked") == 0
	}
	c := C03Case{P: p}
	if op != "equals" && ref.Prod(p.Leaves[0].Shape) <= 64 && rapid.IntRange(0, 11).Draw(t, "series") == 0 {
		c.Series = drawUnarySeries(t)
	} else if op != "equals" && ref.Prod(p.Leaves[0].Shape) <= 64 && rapid.IntRange(0, 7).Draw(t, "chain") == 0 {
		all := drawUnarySeries(t)
		c.Series, c.Chain = all[:rapid.IntRange(2, 6).Draw(t, "chainlen")], true
	}
	return c
}

func isTranscendental(op string) bool {
	switch op {
	case "pow", "exp", "log", "sin", "cos", "tan", "sinh", "cosh", "tanh":
		return true
	}
	return false
}

func checkC03(c C03Case) *Failure {
	if len(c.P.Nodes) != 1 {
		return failf("malformed case")
	}
	n := c.P.Nodes[0]
	if n.Op == "equals" {
		return checkEquals(c)
	}
	want, err := refForward(c.P)
	if err != nil {
		return nil
	}
	leaves, y, err := libForward(c.P)
	if err != nil {
		return failf("%s failed on valid operands: %v", n.Op, err)
	}
	mode := cmpBits
	if n.Op == "elmax" || n.Op == "elmin" {
		mode = cmpNum
	}
	if isTranscendental(n.Op) {
		mode = cmpTol
	}
	if f := compareTensor(n.Op, y, want, mode, nil); f != nil {
		return f
	}
	if len(c.Series) > 0 && len(c.Series) <= 80 {
		// a long series of unary calls on one tensor object
		x0 := leaves[0]
		r0 := ref.FromVals(c.P.Leaves[0].Shape, c.P.Leaves[0].Vals)
		if c.Chain {
			evid.Class("C03.chain_of_unary_calls_on_results")
		}
		for k, sn := range c.Series {
			if c.Chain && k > 0 {
				// the operand is the previous result object; the definition applies to its elements
				cs, cv, err := lib.Read(x0)
				if err != nil {
					return failf("result %d of a chain unreadable: %v", k, err)
				}
				r0 = ref.FromVals(cs, cv)
			}
			if !prog.IsUnary(sn.Op) {
				return nil
			}
			ws, err := prog.ApplyRef(nil, sn, []ref.T{r0})
			if err != nil {
				return nil
			}
			ys, err := prog.ApplyLib(sn, []tensor.Tensor{x0}, nil)
			if err != nil || ys == nil {
				return failf("call %d of a series on one tensor (%s %v) failed: %v", k+2, sn.Op, sn.F, err)
			}
			m := cmpBits
			if isTranscendental(sn.Op) {
				m = cmpTol
			}
			if f := compareTensor(fmt.Sprintf("call %d of a series of unary calls on one tensor object: %s(%v)", k+2, sn.Op, sn.F), ys, ws, m, nil); f != nil {
				return f
			}
			if c.Chain {
				x0 = ys
			}
		}
		if !c.Chain {
			evid.Class("C03.series_of_17_or_more_unary_calls_on_one_tensor")
		}
	}
	if prog.IsCmp(n.Op) {
		_, yv, _ := lib.Read(y)
		for k, v := range yv {
			if v != 0 && v != 1 {
				return failf("%s: element %d = %v is neither 0 nor 1", n.Op, k, v)
			}
		}
	}
	expandsA, expandsB := false, false
	if len(n.In) == 2 && (n.Op == "add" || n.Op == "sub" || n.Op == "mul" || n.Op == "div") {
		// identical to broadcasting explicitly first
		a, b := leaves[n.In[0]], leaves[n.In[1]]
		ab, err := a.Broadcast(ref.Cp(want.Shape))
		if err != nil {
			return failf("explicit Broadcast of first operand %v to %v failed: %v", a.Shape(), want.Shape, err)
		}
		bb, err := b.Broadcast(ref.Cp(want.Shape))
		if err != nil {
			return failf("explicit Broadcast of second operand %v to %v failed: %v", b.Shape(), want.Shape, err)
		}
		y2, err := prog.ApplyLib(prog.Node{Op: n.Op}, []tensor.Tensor{ab, bb}, nil)
		if err != nil {
			return failf("%s on explicitly broadcast operands failed: %v", n.Op, err)
		}
		if f := sameTensors(n.Op+" implicit vs explicit broadcasting", y, y2, false); f != nil {
			return f
		}
		expandsA = !ref.EqShape(c.P.Leaves[n.In[0]].Shape, want.Shape)
		expandsB = !ref.EqShape(c.P.Leaves[n.In[1]].Shape, want.Shape)
	}
	evid.Eval()
	evid.Class("C03.op=" + n.Op)
	rank := len(want.Shape)
	evid.Class(fmt.Sprintf("C03.rank=%d", rank))
	ties := false
	if len(n.In) == 2 && n.In[0] != n.In[1] {
		a, b := c.P.Leaves[n.In[0]], c.P.Leaves[n.In[1]]
		if ref.EqShape(a.Shape, b.Shape) {
			for i := range a.Vals {
				if a.Vals[i] == b.Vals[i] {
					ties = true
				}
			}
		}
	}
	if expandsA && expandsB {
		evid.Class("C03.both_operands_expand")
	} else if expandsA {
		evid.Class("C03.first_operand_expands")
	} else if expandsB {
		evid.Class("C03.second_operand_expands")
	}
	if ties && (prog.IsCmp(n.Op) || n.Op == "elmax" || n.Op == "elmin") {
		evid.Class("C03.ties")
	}
	if (expandsA && expandsB) || rank >= 3 || (ties && prog.IsCmp(n.Op)) {
		evid.NonTrivial(c)
	}
	return nil
}

func checkEquals(c C03Case) *Failure {
	n := c.P.Nodes[0]
	if len(n.In) != 2 {
		return failf("malformed case")
	}
	a, b := c.P.Leaves[n.In[0]], c.P.Leaves[n.In[1]]
	if !ref.EqShape(a.Shape, b.Shape) {
		return nil
	}
	want := true
	for i := range a.Vals {
		if a.Vals[i] != b.Vals[i] {
			want = false
		}
	}
	la := lib.MustNew(a.Shape, a.Vals, a.Tracked)
	lb := la
	if n.In[0] != n.In[1] {
		lb = lib.MustNew(b.Shape, b.Vals, b.Tracked)
	}
	got, err := la.Equals(lb)
	if err != nil {
		return failf("Equals rejected operands of identical shape %v: %v", a.Shape, err)
	}
	if got != want {
		return failf("Equals = %v, but every position equal = %v", got, want)
	}
	evid.Eval()
	evid.Class("C03.op=equals")
	if want {
		evid.Class("C03.equals_true")
	} else {
		evid.Class("C03.equals_false")
	}
	if len(a.Shape) >= 3 || want {
		evid.NonTrivial(c)
	}
	return nil
}

func TestC03_elementwise(t *testing.T) {
	run(t, 30000, func(rt *rapid.T) {
		c := genC03(rt)
		if f := guard(func() *Failure { return checkC03(c) }); f != nil {
			fail(rt, "C03/elementwise", c, f)
		}
	})
}
