package checks

import (
	"fmt"
	"testing"

	"github.com/sahandsafizadeh/qeep/component/optimizers"
	"github.com/sahandsafizadeh/qeep/tensor"
	"pgregory.net/rapid"

	"qeepverif/evid"
	"qeepverif/lib"
	"qeepverif/prog"
	"qeepverif/ref"
)

// C10Case is a history as in C08 with three more step kinds:
//   mutate  overwrite caller-owned slice number X (in order of hand-over) with garbage
//           (Tracked=true: plausible values shifted by one; false: invalid values)
//   shape   call Shape() on tensor X and keep the returned slice as caller-owned
//   sgd     SGD.Update on a pointer to tensor X (which has a gradient); the replacement
//           tensor joins the pool
// and leaves built either by TensorOf (nested data is caller-owned) or by Full (dims are).
type C10Case struct {
	Steps []HStep `json:"steps"`
	LR    float64 `json:"lr,omitempty"` // learning rate of the history's optimizer (0 is a valid rate)
}

func init() { register("C10/immutability", checkC10) }

// owned is one caller-owned slice handed to or received from the library.
type owned struct {
	ints    []int
	ranges  []tensor.Range
	tensors []tensor.Tensor
	nested  any
	result  int    // pool id of the tensor the call produced (-1: none)
	op      string // operation that received it
}

func mutateNested(v any) {
	switch d := v.(type) {
	case []float64:
		for i := range d {
			d[i] = 1e9 + float64(i)
		}
	case [][]float64:
		for i := range d {
			mutateNested(d[i])
		}
		if len(d) > 1 {
			d[0], d[1] = d[1], d[0]
		}
	case [][][]float64:
		for i := range d {
			mutateNested(d[i])
		}
	case [][][][]float64:
		for i := range d {
			mutateNested(d[i])
		}
	}
}

func (o *owned) mutate(plausible bool) {
	// a slice that is a prefix of a longer buffer: the caller reuses the whole buffer
	if sp := o.ints[len(o.ints):cap(o.ints)]; len(sp) > 0 && o.op != "Shape" { // only buffers the caller made
		for i := range sp {
			sp[i] = 1 + i
		}
		evid.Class("C10.spare_capacity_overwritten")
	}
	if sp := o.ranges[len(o.ranges):cap(o.ranges)]; len(sp) > 0 {
		for i := range sp {
			sp[i] = tensor.Range{From: i, To: i + 1}
		}
		evid.Class("C10.spare_capacity_overwritten")
	}
	if sp := o.tensors[len(o.tensors):cap(o.tensors)]; len(sp) > 0 && len(o.tensors) > 0 {
		for i := range sp {
			sp[i] = o.tensors[0]
		}
		evid.Class("C10.spare_capacity_overwritten")
	}
	for i := range o.ints {
		if plausible {
			o.ints[i]++
		} else {
			o.ints[i] = -7
		}
	}
	for i := range o.ranges {
		if plausible {
			o.ranges[i].From++
			o.ranges[i].To++
		} else {
			o.ranges[i] = tensor.Range{From: 5, To: 2}
		}
	}
	for i := range o.tensors {
		if plausible && len(o.tensors) > 1 {
			o.tensors[i] = o.tensors[(i+1)%len(o.tensors)]
		} else {
			o.tensors[i] = nil
		}
	}
	if o.nested != nil {
		mutateNested(o.nested)
	}
}

// ownedCount returns how many caller-owned slices a step hands over / receives (the same
// for generator and checker).
func ownedCount(st HStep) int {
	switch st.Kind {
	case "leaf":
		if st.X == 2 {
			return 0 // Eye(n): no slice handed over
		}
		if len(st.Shape) == 0 && st.X == 0 {
			return 0 // TensorOf(float64): nothing to own
		}
		if st.X == 0 && len(st.Shape) > 4 {
			return 2 // flat data + reshape dims
		}
		return 1
	case "shape":
		return 1
	case "op":
		switch st.Node.Op {
		case "reshape", "broadcast", "slice", "patch", "concat":
			return 1
		}
	}
	return 0
}

func genC10(t *rapid.T) C10Case {
	var c C10Case
	m := &trackModel{}
	nOwned := 0
	bursted := false
	var live []int // owned slices not yet mutated
	addLeaf := func() {
		s := rapid.SampledFrom(prog.HistShapes).Draw(t, "shape")
		if rapid.IntRange(0, 9).Draw(t, "rank5") == 0 {
			s = []int{1, 2, 1, 2, 1}
		}
		tr := rapid.IntRange(0, 2).Draw(t, "tracked") > 0
		st := HStep{Kind: "leaf", Shape: ref.Cp(s), Tracked: tr}
		if k := rapid.IntRange(0, 11).Draw(t, "ctor"); k <= 2 {
			st.X = 1 // built by Full(dims, 0.75)
		} else if k <= 5 {
			st.X = k - 1 // 2 Eye(n), 3 Zeros, 4 Ones
			if st.X == 2 {
				n := rapid.IntRange(1, 3).Draw(t, "eyen")
				st.Shape, s = []int{n, n}, []int{n, n}
			}
			st.Tracked = rapid.IntRange(0, 3).Draw(t, "ctortracked") == 0
			tr = st.Tracked
		} else {
			st.Vals = prog.DrawValsMode(t, ref.Prod(s), len(m.e), "std")
		}
		c.Steps = append(c.Steps, st)
		m.addLeaf(s, tr)
		for k := 0; k < ownedCount(st); k++ {
			live = append(live, nOwned)
			nOwned++
		}
	}
	addLeaf()
	nsteps := rapid.IntRange(4, 36).Draw(t, "nsteps")
	ops := append(append([]string{}, prog.AllOps...), "reshape", "broadcast", "slice", "slice", "patch", "patch", "concat", "concat")
	for len(c.Steps) < nsteps {
		switch k := rapid.IntRange(0, 15).Draw(t, "kind"); {
		case k <= 1:
			addLeaf()
		case k <= 7:
			n, rs := drawHistOp(t, m, ops)
			st := HStep{Kind: "op", Node: &n}
			c.Steps = append(c.Steps, st)
			m.addOp(n, rs)
			for q := 0; q < ownedCount(st); q++ {
				live = append(live, nOwned)
				nOwned++
			}
			if !bursted && rapid.IntRange(0, 19).Draw(t, "burst") == 0 {
				bursted = true
				if rapid.Bool().Draw(t, "burstkind") {
					// a chain of 50..70 unary operations on the newest tensor: a deep graph
					for b := rapid.IntRange(50, 70).Draw(t, "burstlen"); b > 0; b-- {
						u := prog.Node{Op: []string{"sin", "tanh", "cos"}[b%3], In: []int{len(m.e) - 1}}
						c.Steps = append(c.Steps, HStep{Kind: "op", Node: &u})
						m.addOp(u, m.e[len(m.e)-1].shape)
					}
					nsteps += 75
				} else {
					// Shape() of one tensor read 40 times, every returned slice overwritten at once
					x := len(m.e) - 1
					for b := 0; b < 40; b++ {
						c.Steps = append(c.Steps, HStep{Kind: "shape", X: x}, HStep{Kind: "mutate", X: nOwned, Tracked: b%2 == 0})
						nOwned++
					}
					nsteps += 80
				}
			}
		case k <= 9:
			x := rapid.IntRange(0, len(m.e)-1).Draw(t, "bp")
			if len(m.e) > 2 && rapid.Bool().Draw(t, "bprecent") {
				x = rapid.IntRange(len(m.e)-2, len(m.e)-1).Draw(t, "bpr")
			}
			if !m.bpEnabled(x) {
				addLeaf()
				continue
			}
			c.Steps = append(c.Steps, HStep{Kind: "bp", X: x})
			m.bp(x)
		case k == 10:
			x := rapid.IntRange(0, len(m.e)-1).Draw(t, "reset")
			if !m.resetEnabled(x) || m.e[x].isGrad {
				addLeaf()
				continue
			}
			tr := rapid.Bool().Draw(t, "resettracked")
			c.Steps = append(c.Steps, HStep{Kind: "reset", X: x, Tracked: tr})
			m.reset(x, tr)
		case k == 11:
			x := rapid.IntRange(0, len(m.e)-1).Draw(t, "shapeof")
			c.Steps = append(c.Steps, HStep{Kind: "shape", X: x})
			live = append(live, nOwned)
			nOwned++
		case k == 12:
			var withGrad []int
			for i := range m.e {
				if m.e[i].hasGrad {
					withGrad = append(withGrad, i)
				}
			}
			if len(withGrad) == 0 {
				addLeaf()
				continue
			}
			x := rapid.SampledFrom(withGrad).Draw(t, "sgdon")
			c.Steps = append(c.Steps, HStep{Kind: "sgd", X: x})
			m.addOp(prog.Node{Op: "sub", In: []int{x, x}}, m.e[x].shape)
		default:
			if len(live) == 0 {
				addLeaf()
				continue
			}
			i := rapid.IntRange(0, len(live)-1).Draw(t, "which")
			k := live[i]
			live = append(live[:i], live[i+1:]...)
			c.Steps = append(c.Steps, HStep{Kind: "mutate", X: k, Tracked: rapid.Bool().Draw(t, "plausible")})
		}
	}
	c.LR = rapid.SampledFrom([]float64{0.125, 0.125, 0, -0.5, 1}).Draw(t, "lr")
	// mutate whatever is still live, then back-propagate whatever still can be
	for _, k := range live {
		c.Steps = append(c.Steps, HStep{Kind: "mutate", X: k, Tracked: rapid.Bool().Draw(t, "plausible")})
	}
	for x := len(m.e) - 1; x >= 0; x-- {
		if m.e[x].tracked && !m.e[x].leaf && !m.e[x].passed && m.bpEnabled(x) {
			c.Steps = append(c.Steps, HStep{Kind: "bp", X: x, Probe: true})
			m.bp(x)
		}
	}
	return c
}

type c10Run struct {
	snaps [][]lib.Snapshot
	nt    bool
	muts  int
}

// runC10 executes the history; with mutate=false the mutate steps are skipped (the twin).
func runC10(c C10Case, mutate bool) (*c10Run, *Failure) {
	m := &trackModel{}
	var pool []tensor.Tensor
	var own []*owned
	opt := optimizers.NewSGD(&optimizers.SGDConfig{LearningRate: c.LR})
	r := &c10Run{}
	// gradient tensors handed out by Gradient() are tensors like any other: once seen, their
	// shape and elements never change (a later back-propagation installs a new gradient tensor)
	var handles []tensor.Tensor
	var handleSnaps []lib.Snapshot
	var prev []lib.Snapshot
	pendingNT := map[int]bool{} // results of ops whose captured slice was mutated while the graph was live
	for si, st := range c.Steps {
		changed := map[int]bool{}
		switch st.Kind {
		case "leaf":
			if !ref.ValidDims(st.Shape) {
				return nil, nil
			}
			var x tensor.Tensor
			var err error
			if st.X == 2 {
				if len(st.Shape) != 2 || st.Shape[0] != st.Shape[1] {
					return nil, nil
				}
				x, err = tensor.Eye(st.Shape[0], lib.Conf(st.Tracked))
			} else if st.X == 1 || st.X == 3 || st.X == 4 {
				dims := ref.Cp(st.Shape)
				switch st.X {
				case 1:
					x, err = tensor.Full(dims, 0.75, lib.Conf(st.Tracked))
				case 3:
					x, err = tensor.Zeros(dims, lib.Conf(st.Tracked))
				default:
					x, err = tensor.Ones(dims, lib.Conf(st.Tracked))
				}
				own = append(own, &owned{ints: dims, result: len(pool), op: "Full/Zeros/Ones"})
			} else {
				if len(st.Vals) != ref.Prod(st.Shape) {
					return nil, nil
				}
				switch {
				case len(st.Shape) == 0:
					x, err = tensor.TensorOf(st.Vals[0], lib.Conf(st.Tracked))
				case len(st.Shape) <= 4:
					data := lib.Nested(st.Shape, st.Vals)
					x, err = lib.TensorOfAny(data, lib.Conf(st.Tracked))
					own = append(own, &owned{nested: data, result: len(pool), op: "TensorOf"})
				default:
					flat := append([]float64{}, st.Vals...)
					dims := ref.Cp(st.Shape)
					x, err = tensor.TensorOf(flat, lib.Conf(false))
					if err == nil {
						x, err = x.Reshape(dims)
					}
					if err == nil {
						x.ResetGradContext(st.Tracked)
					}
					own = append(own, &owned{nested: flat, result: len(pool), op: "TensorOf"}, &owned{ints: dims, result: len(pool), op: "Reshape"})
				}
			}
			if err != nil {
				return nil, failf("step %d: cannot create leaf: %v", si, err)
			}
			pool = append(pool, x)
			m.addLeaf(st.Shape, st.Tracked)
		case "op":
			if st.Node == nil {
				return nil, nil
			}
			n := *st.Node
			for _, o := range n.In {
				if o < 0 || o >= len(pool) || m.e[o].cmpOfSpent {
					return nil, nil
				}
			}
			rs, err := prog.ResultShape(n, m.shapes())
			if err != nil {
				return nil, nil
			}
			in := make([]tensor.Tensor, len(n.In))
			for k, o := range n.In {
				in[k] = pool[o]
			}
			if si%3 == 0 {
				// every third operation is preceded by calls of the same operation on the same
				// tensors that must be rejected: they leave every existing tensor as it is
				prog.InvalidCall(n, in)
			}
			var p prog.Passed
			y, err := prog.ApplyLib(n, in, &p)
			if err != nil {
				return nil, failf("step %d: %s rejected valid operands: %v", si, n.Op, err)
			}
			// slices handed to the library still hold what the caller put in them
			for _, s := range p.Ints {
				if !ref.EqShape(s, n.S) {
					return nil, failf("step %d: %s wrote to the caller's dims slice: %v became %v", si, n.Op, n.S, s)
				}
			}
			for _, s := range p.Ranges {
				want := prog.ToRanges(n.R)
				for k := range s {
					if k >= len(want) || s[k] != want[k] {
						return nil, failf("step %d: %s wrote to the caller's index slice: %v became %v", si, n.Op, want, s)
					}
				}
			}
			for _, s := range p.Tensors {
				for k := range s {
					if s[k] != in[k] {
						return nil, failf("step %d: %s wrote to the caller's tensor list", si, n.Op)
					}
				}
			}
			for _, s := range p.Ints {
				own = append(own, &owned{ints: s, result: len(pool), op: n.Op})
			}
			for _, s := range p.Ranges {
				own = append(own, &owned{ranges: s, result: len(pool), op: n.Op})
			}
			for _, s := range p.Tensors {
				own = append(own, &owned{tensors: s, result: len(pool), op: n.Op})
			}
			pool = append(pool, y)
			m.addOp(n, rs)
		case "bp":
			if st.X < 0 || st.X >= len(pool) || !m.bpEnabled(st.X) {
				return nil, nil
			}
			if err := tensor.BackPropagate(pool[st.X]); err != nil {
				return nil, failf("step %d: BackPropagate(tensor %d) returned error: %v", si, st.X, err)
			}
			for _, x := range m.bp(st.X) {
				changed[x] = true
				if pendingNT[x] {
					r.nt = true
				}
			}
		case "reset":
			if st.X < 0 || st.X >= len(pool) || !m.resetEnabled(st.X) || m.e[st.X].isGrad {
				return nil, nil
			}
			pool[st.X].ResetGradContext(st.Tracked)
			m.reset(st.X, st.Tracked)
			changed[st.X] = true
		case "shape":
			if st.X < 0 || st.X >= len(pool) {
				return nil, nil
			}
			s := pool[st.X].Shape()
			if !ref.EqShape(s, m.e[st.X].shape) {
				return nil, failf("step %d: Shape() of tensor %d = %v, expected %v", si, st.X, s, m.e[st.X].shape)
			}
			own = append(own, &owned{ints: s, result: -1, op: "Shape"})
		case "sgd":
			if st.X < 0 || st.X >= len(pool) || !m.e[st.X].hasGrad {
				return nil, nil
			}
			w := pool[st.X]
			if err := opt.Update(&w); err != nil {
				return nil, failf("step %d: SGD.Update on tensor %d (which has a gradient) failed: %v", si, st.X, err)
			}
			if w == pool[st.X] {
				return nil, failf("step %d: SGD.Update did not replace the tensor behind the pointer", si)
			}
			pool = append(pool, w)
			m.addOp(prog.Node{Op: "sub", In: []int{st.X, st.X}}, m.e[st.X].shape)
		case "mutate":
			if st.X < 0 || st.X >= len(own) {
				return nil, nil
			}
			if mutate {
				o := own[st.X]
				o.mutate(st.Tracked)
				r.muts++
				if o.result >= 0 && o.result < len(m.e) && m.e[o.result].tracked && !m.e[o.result].passed && !m.e[o.result].leaf {
					pendingNT[o.result] = true
				}
			}
		default:
			return nil, nil
		}
		cur, err := snapAll(pool)
		if err != nil {
			return nil, failf("step %d (%s): %v", si, st.Kind, err)
		}
		for h, g := range handles {
			now, err := lib.Snap(g)
			if err != nil {
				return nil, failf("step %d (%s): a gradient tensor obtained earlier became unreadable: %v", si, st.Kind, err)
			}
			now.HasG, now.GS, now.GV = false, nil, nil
			if !handleSnaps[h].Equal(now) {
				return nil, failf("step %d (%s): a gradient tensor obtained from Gradient() after an earlier step changed its shape or elements: %v %v -> %v %v", si, st.Kind, handleSnaps[h].Shape, handleSnaps[h].V, now.Shape, now.V)
			}
		}
		for _, x := range pool {
			g := x.Gradient()
			if g == nil || len(handles) >= 48 {
				continue
			}
			seen := false
			for _, h := range handles {
				if h == g {
					seen = true
					break
				}
			}
			if seen {
				continue
			}
			gs, err := lib.Snap(g)
			if err != nil {
				return nil, failf("step %d (%s): gradient unreadable: %v", si, st.Kind, err)
			}
			gs.HasG, gs.GS, gs.GV = false, nil, nil
			handles = append(handles, g)
			handleSnaps = append(handleSnaps, gs)
		}
		for i := range pool {
			if i >= len(prev) {
				continue
			}
			if changed[i] {
				a, b := prev[i], cur[i]
				a.HasG, a.GS, a.GV, b.HasG, b.GS, b.GV = false, nil, nil, false, nil, nil
				if !a.Equal(b) {
					return nil, failf("step %d (%s): shape or elements of tensor %d changed", si, st.Kind, i)
				}
				continue
			}
			if !prev[i].Equal(cur[i]) {
				what := st.Kind
				if st.Kind == "mutate" {
					what = fmt.Sprintf("mutating the caller's slice that was passed to / returned by %s", own[st.X].op)
				}
				return nil, failf("step %d: %s changed tensor %d (shape, elements or gradient)", si, what, i)
			}
		}
		prev = cur
		r.snaps = append(r.snaps, cur)
	}
	return r, nil
}

func checkC10(c C10Case) *Failure {
	a, f := runC10(c, true)
	if f != nil {
		return f
	}
	if a == nil {
		return nil
	}
	b, f := runC10(c, false)
	if f != nil || b == nil {
		return f
	}
	for si := range a.snaps {
		for i := range a.snaps[si] {
			if !a.snaps[si][i].Equal(b.snaps[si][i]) {
				return failf("after step %d (%s): tensor %d differs between the history with slice mutations and the same history without them", si, c.Steps[si].Kind, i)
			}
		}
	}
	evid.Eval()
	evid.ClassN("C10.mutations", a.muts)
	evid.ClassN("C10.steps", len(c.Steps))
	if a.nt {
		evid.Class("C10.captured_slice_mutated_before_backprop")
		evid.NonTrivial(c)
	}
	return nil
}

func TestC10_immutability(t *testing.T) {
	run(t, 5000, func(rt *rapid.T) {
		c := genC10(rt)
		if f := guard(func() *Failure { return checkC10(c) }); f != nil {
			fail(rt, "C10/immutability", c, f)
		}
	})
}
