package checks

import (
	"fmt"
	"math"
	"testing"

	"github.com/sahandsafizadeh/qeep/tensor"
	"pgregory.net/rapid"

	"qeepverif/evid"
	"qeepverif/lib"
	"qeepverif/prog"
	"qeepverif/ref"
)

// C06Case: one indexing / reshaping operation on fresh leaves with arbitrary payloads, or a
// constructor call (ops full zeros ones eye tensorof at: shape in node.S, value in node.F,
// Eye size in node.I; tensorof/at take their data from leaf 0).
type C06Case struct {
	P prog.Program `json:"p"`
	// Series: shapes the first operand object is reshaped to afterwards, one after the other
	// (9 or more pairwise different ones, then earlier ones again); every result has the
	// requested shape and the operand's row-major element sequence
	Series [][]int `json:"series,omitempty"`
}

// drawShapeSeries draws 9..14 pairwise different shapes with n elements (factorizations with
// size-1 dimensions inserted) followed by repeats of earlier ones.
func drawShapeSeries(t *rapid.T, n int) [][]int {
	seen := map[string]bool{}
	var out [][]int
	for tries := 0; len(out) < 14 && tries < 200; tries++ {
		f := prog.DrawFactorization(t, n, 4)
		for len(f) < 6 && rapid.IntRange(0, 2).Draw(t, "pad1") == 0 {
			k := rapid.IntRange(0, len(f)).Draw(t, "padat")
			f = append(f[:k], append([]int{1}, f[k:]...)...)
		}
		if key := fmt.Sprint(f); !seen[key] {
			seen[key] = true
			out = append(out, f)
		}
	}
	if len(out) < 9 {
		return nil
	}
	out = out[:rapid.IntRange(9, len(out)).Draw(t, "nshapes")]
	n0 := len(out)
	for i := n0 - 2; i >= 0; i-- {
		out = append(out, out[i])
	}
	return out
}

func init() { register("C06/structure", checkC06) }

var c06Ops = []string{"at", "slice", "slice", "patch", "patch", "concat", "concat", "reshape", "flatten", "squeeze", "unsqueeze", "broadcast", "full", "zeros", "ones", "eye", "tensorof"}

func genC06(t *rapid.T) C06Case {
	op := rapid.SampledFrom(c06Ops).Draw(t, "op")
	cfg := prog.SingleCfg{MaxRank: 6, MaxDim: 4, MaxElems: 400, Bits: true}
	switch op {
	case "at", "tensorof":
		if op == "tensorof" {
			cfg.MaxRank = 4
		}
		p := prog.GenSingle(t, "exp", cfg)
		p.Nodes[0] = prog.Node{Op: op, In: []int{0}}
		return C06Case{P: p}
	case "full", "zeros", "ones":
		s := prog.DrawShapeN(t, 0, 6, 4, 400, false)
		v := prog.DrawValsMode(t, 1, 0, "bits")
		return C06Case{P: prog.Program{Nodes: []prog.Node{{Op: op, S: s, F: finiteOr(v[0], 2.5)}}}}
	case "eye":
		return C06Case{P: prog.Program{Nodes: []prog.Node{{Op: op, I: rapid.IntRange(1, 6).Draw(t, "n")}}}}
	}
	p := prog.GenSingle(t, op, cfg)
	for i := range p.Leaves {
		p.Leaves[i].Tracked = rapid.IntRange(0, 3).Draw(t, "tracked") == 0 // elements do not depend on tracking
	}
	if rapid.IntRange(0, 9).Draw(t, "nearconstant") == 0 {
		// all elements equal except for NaNs in drawn positions; or zeros of both signs only
		for i := range p.Leaves {
			v := p.Leaves[i].Vals
			k := rapid.SampledFrom([]float64{7, 2.5, 0, 1, math.Inf(1)}).Draw(t, "constant")
			zeros := rapid.IntRange(0, 3).Draw(t, "signedzeros") == 0
			for j := range v {
				v[j] = k
				if zeros {
					v[j] = math.Copysign(0, float64(1-2*rapid.IntRange(0, 1).Draw(t, "zsign")))
				} else if rapid.IntRange(0, 3).Draw(t, "nanhere") == 0 {
					v[j] = math.NaN()
				}
			}
		}
	}
	c := C06Case{P: p}
	if n := ref.Prod(p.Leaves[0].Shape); n <= 64 && rapid.IntRange(0, 11).Draw(t, "shapeseries") == 0 {
		c.Series = drawShapeSeries(t, n)
	}
	return c
}

func finiteOr(v, alt float64) float64 {
	if v != v || v > 1e308 || v < -1e308 {
		return alt
	}
	return v
}

func checkC06(c C06Case) *Failure {
	if len(c.P.Nodes) != 1 {
		return failf("malformed case")
	}
	n := c.P.Nodes[0]
	switch n.Op {
	case "full", "zeros", "ones", "eye":
		return checkC06Constructor(c)
	case "at", "tensorof":
		if len(c.P.Leaves) != 1 {
			return failf("malformed case")
		}
		l := c.P.Leaves[0]
		x, err := lib.New(l.Shape, l.Vals, false)
		if err != nil {
			return failf("cannot build tensor of shape %v: %v", l.Shape, err)
		}
		// lib.Read visits every valid multi-index through At
		if f := compareTensor(n.Op, x, ref.FromVals(l.Shape, l.Vals), cmpBits, nil); f != nil {
			return f
		}
		evid.Eval()
		evid.Class("C06.op=" + n.Op)
		evid.ClassN("C06.at_indexes_visited", len(l.Vals))
		if len(l.Shape) >= 3 {
			evid.NonTrivial(c)
		}
		return nil
	}
	want, err := refForward(c.P)
	if err != nil {
		return nil
	}
	leaves, y, err := libForward(c.P)
	if err != nil {
		return failf("%s failed on valid arguments: %v", n.Op, err)
	}
	if f := compareTensor(n.Op, y, want, cmpBits, nil); f != nil {
		return f
	}
	a := leaves[n.In[0]]
	sa := c.P.Leaves[n.In[0]].Shape
	nt := len(sa) >= 3
	switch n.Op {
	case "patch":
		src := leaves[n.In[1]]
		ss := c.P.Leaves[n.In[1]].Shape
		off, _ := ref.PatchOffsets(n.R, ss, sa)
		block := make([]tensor.Range, len(ss))
		for i := range block {
			block[i] = tensor.Range{From: off[i], To: off[i] + ss[i]}
			if off[i] > 0 {
				nt = true
				evid.Class("C06.patch_nonzero_offset")
			}
		}
		back, err := y.Slice(block)
		if err != nil {
			return failf("slicing the patched block %v back failed: %v", block, err)
		}
		if f := sameTensors("Slice(block)(Patch(idx, s)) vs s", back, src, false); f != nil {
			return f
		}
	case "slice":
		// a slice patched back into its origin reproduces the origin
		ci, _ := ref.CompleteIndex(n.R, sa)
		full := make([]tensor.Range, len(ci))
		for i, r := range ci {
			full[i] = tensor.Range{From: r.From, To: r.To}
		}
		back, err := a.Patch(full, y)
		if err != nil {
			return failf("patching slice %v back into its origin failed: %v", full, err)
		}
		if f := sameTensors("Patch(idx, Slice(idx)(x)) vs x", back, a, false); f != nil {
			return f
		}
	case "concat":
		base := 0
		for k, o := range n.In {
			d := c.P.Leaves[o].Shape[n.I]
			idx := make([]tensor.Range, n.I+1)
			idx[n.I] = tensor.Range{From: base, To: base + d}
			piece, err := y.Slice(idx)
			if err != nil {
				return failf("slicing piece %d (%v) of the concatenation failed: %v", k, idx, err)
			}
			if f := sameTensors(fmt.Sprintf("piece %d of Concat along %d", k, n.I), piece, leaves[o], false); f != nil {
				return f
			}
			base += d
		}
		if len(n.In) >= 3 && n.I > 0 && n.I < len(sa)-1 {
			nt = true
			evid.Class("C06.concat>=3_interior_dim")
		}
	case "reshape", "flatten", "squeeze", "unsqueeze":
		back, err := y.Reshape(ref.Cp(sa))
		if err != nil {
			return failf("reshaping back to %v failed: %v", sa, err)
		}
		if f := sameTensors("Reshape(orig)("+n.Op+"(x)) vs x", back, a, false); f != nil {
			return f
		}
		if len(want.Shape) >= 1 && len(sa) >= 1 {
			f1, err1 := y.Flatten(0)
			f2, err2 := a.Flatten(0)
			if err1 != nil || err2 != nil {
				return failf("Flatten(0) failed: %v %v", err1, err2)
			}
			if f := sameTensors("row-major sequence after "+n.Op, f1, f2, false); f != nil {
				return f
			}
		}
	}
	if len(c.Series) > 0 && len(c.Series) <= 40 {
		l0 := c.P.Leaves[0]
		for k, sh := range c.Series {
			if ref.Prod(sh) != len(l0.Vals) || !ref.ValidDims(sh) || len(sh) > 8 {
				return nil
			}
			r, err := leaves[0].Reshape(ref.Cp(sh))
			if err != nil {
				return failf("reshape number %d of one tensor object (%v -> %v) failed: %v", k+1, l0.Shape, sh, err)
			}
			if f := compareTensor(fmt.Sprintf("reshape number %d of one tensor object (%v -> %v)", k+1, l0.Shape, sh), r, ref.FromVals(sh, l0.Vals), cmpBits, nil); f != nil {
				return f
			}
		}
		evid.Class("C06.nine_or_more_shapes_of_one_tensor")
	}
	if n.Op == "slice" {
		// one index slice object serves two calls on operands of different extent
		idx := prog.ToRanges(n.R)
		if _, err := a.Slice(idx); err != nil {
			return failf("slice with a reused index failed: %v", err)
		}
		big := make([]int, len(sa))
		for i := range big {
			big[i] = sa[i] + 1
		}
		bv := make([]float64, ref.Prod(big))
		for i := range bv {
			bv[i] = float64(i)
		}
		bt := lib.MustNew(big, bv, false)
		y2, err := bt.Slice(idx)
		if err != nil {
			return failf("slice %v of a tensor of shape %v (index slice used before on shape %v) failed: %v", n.R, big, sa, err)
		}
		want2, err := (*ref.Ctx)(nil).Slice(ref.FromVals(big, bv), n.R)
		if err == nil {
			if f := compareTensor("slice with an index slice that served an earlier call", y2, want2, cmpBits, nil); f != nil {
				return f
			}
		}
	}
	if n.Op == "slice" || n.Op == "patch" {
		explicit, omitted := 0, len(sa)-len(n.R)
		for _, r := range n.R {
			if r.From == 0 && r.To == 0 {
				omitted++
			} else {
				explicit++
			}
		}
		if explicit > 0 && omitted > 0 {
			nt = true
			evid.Class("C06.mixed_explicit_omitted_ranges")
		}
	}
	evid.Eval()
	evid.Class("C06.op=" + n.Op)
	evid.Class(fmt.Sprintf("C06.rank=%d", len(sa)))
	if nt {
		evid.NonTrivial(c)
	}
	return nil
}

func checkC06Constructor(c C06Case) *Failure {
	n := c.P.Nodes[0]
	var x tensor.Tensor
	var err error
	var want ref.T
	switch n.Op {
	case "full", "zeros", "ones":
		v := n.F
		switch n.Op {
		case "full":
			x, err = tensor.Full(ref.Cp(n.S), v, nil)
		case "zeros":
			v = 0
			x, err = tensor.Zeros(ref.Cp(n.S), nil)
		default:
			v = 1
			x, err = tensor.Ones(ref.Cp(n.S), nil)
		}
		vals := make([]float64, ref.Prod(n.S))
		for i := range vals {
			vals[i] = v
		}
		want = ref.FromVals(n.S, vals)
	case "eye":
		x, err = tensor.Eye(n.I, nil)
		vals := make([]float64, n.I*n.I)
		for i := 0; i < n.I; i++ {
			vals[i*n.I+i] = 1
		}
		want = ref.FromVals([]int{n.I, n.I}, vals)
	}
	if !ref.ValidDims(want.Shape) {
		return nil
	}
	if err != nil {
		return failf("%s failed on valid arguments: %v", n.Op, err)
	}
	if f := compareTensor(n.Op, x, want, cmpBits, nil); f != nil {
		return f
	}
	evid.Eval()
	evid.Class("C06.op=" + n.Op)
	if len(want.Shape) >= 3 || (n.Op == "eye" && n.I >= 3) {
		evid.NonTrivial(c)
	}
	return nil
}

func TestC06_structure(t *testing.T) {
	run(t, 30000, func(rt *rapid.T) {
		c := genC06(rt)
		if f := guard(func() *Failure { return checkC06(c) }); f != nil {
			fail(rt, "C06/structure", c, f)
		}
	})
}
