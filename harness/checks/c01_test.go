package checks

import (
	"fmt"
	"runtime"
	"testing"

	"github.com/sahandsafizadeh/qeep/tensor"
	"pgregory.net/rapid"

	"qeepverif/evid"
	"qeepverif/lib"
	"qeepverif/prog"
	"qeepverif/ref"
)

// C01Case: one to three op-DAGs over a shared pool of leaves. Graph[i] is the graph of node
// i; graphs share only leaves. Roots[g] is the value back-propagated for graph Order[k].
type C01Case struct {
	P     prog.Program `json:"p"`
	Graph []int        `json:"graph"`
	Roots []int        `json:"roots"`
	Order []int        `json:"order"`
	// Interleave: each graph is built only right before its own back-propagation (after the
	// earlier graphs were back-propagated) instead of all graphs first. The graphs then share
	// untracked leaves only (a tracked leaf belongs to one graph), so that no graph is built
	// from a tensor an earlier back-propagation passed through.
	Interleave bool `json:"interleave,omitempty"`
}

func init() { register("C01/dag", checkC01) }

func genC01(t *rapid.T) C01Case {
	g := prog.NewGen(t, prog.DefaultCfg(prog.Differentiable33))
	base := g.DrawShape(0)
	nl := rapid.IntRange(1, 4).Draw(t, "nleaves")
	var leaves []int
	for l := 0; l < nl; l++ {
		s := base
		if l > 0 && rapid.IntRange(0, 4).Draw(t, "othershape") == 0 {
			s = g.DrawShape(0)
		}
		leaves = append(leaves, g.AddLeaf(s, rapid.IntRange(0, 5).Draw(t, "tracked") > 0))
	}
	if rapid.IntRange(0, 9).Draw(t, "wide") == 0 {
		return genC01Wide(t, g, leaves, base)
	}
	ng := rapid.IntRange(1, 3).Draw(t, "ngraphs")
	if rapid.IntRange(0, 2).Draw(t, "single") > 0 {
		ng = 1
	}
	var c C01Case
	budget := 16
	if rapid.IntRange(0, 11).Draw(t, "manygraphs") == 0 {
		// many small graphs over the same leaves: nine or more back-propagations add up on a leaf
		ng = rapid.IntRange(9, 14).Draw(t, "ngraphsmany")
		budget = 3 * ng
	}
	if ng > 1 && rapid.Bool().Draw(t, "interleave") {
		c.Interleave = true
		for gi := 0; gi < ng; gi++ {
			any := false
			for _, l := range leaves {
				if !g.P.Leaves[l].Tracked || l%ng == gi {
					any = true
				}
			}
			if !any {
				c.Interleave = false
			}
		}
	}
	for gi := 0; gi < ng; gi++ {
		var pool []int
		for _, l := range leaves {
			if !c.Interleave || !g.P.Leaves[l].Tracked || l%ng == gi {
				pool = append(pool, l)
			}
		}
		hi := budget - (ng-gi-1)*2
		if hi > 14 {
			hi = 14
		}
		if hi < 2 {
			hi = 2
		}
		nn := rapid.IntRange(2, hi).Draw(t, "nnodes")
		first := len(g.Vals)
		for len(g.Vals)-first < nn {
			before := len(g.Vals)
			if rapid.IntRange(0, 2).Draw(t, "diamond") == 0 {
				g.AddDiamond(pool)
			} else {
				g.AddNode(pool)
			}
			for id := before; id < len(g.Vals); id++ {
				pool = append(pool, id)
				c.Graph = append(c.Graph, gi)
			}
		}
		budget -= len(g.Vals) - first
		root := len(g.Vals) - 1
		if rapid.IntRange(0, 3).Draw(t, "rootany") == 0 {
			root = rapid.IntRange(first, len(g.Vals)-1).Draw(t, "root")
		}
		c.Roots = append(c.Roots, root)
	}
	c.Order = rapid.Permutation(seq(ng)).Draw(t, "order")
	c.P = g.P
	c.P.NoOpBP = rapid.IntRange(0, 5).Draw(t, "noopbp") == 0
	if g.Subst > 0 {
		evid.ClassN("c01.substituted_ops", g.Subst)
	}
	return c
}

// genC01Wide: a wide, shallow graph - 17..40 scalings (sometimes followed by a Sin) of the
// leaves of the base shape, combined by one Concat along dimension 0, by a chain of Adds or by
// a pairwise tree of Adds. Many results wait for each other, and a leaf has many consumers.
func genC01Wide(t *rapid.T, g *prog.Gen, leaves []int, base []int) C01Case {
	var same []int
	for _, l := range leaves {
		if ref.EqShape(g.P.Leaves[l].Shape, base) {
			same = append(same, l)
		}
	}
	anyTracked := false
	for _, l := range same {
		anyTracked = anyTracked || g.P.Leaves[l].Tracked
	}
	if !anyTracked {
		g.P.Leaves[same[0]].Tracked = true
	}
	nl := len(g.P.Leaves)
	n := rapid.IntRange(17, 40).Draw(t, "width")
	p := g.P
	id := func() int { return nl + len(p.Nodes) - 1 }
	var parts []int
	for i := 0; i < n; i++ {
		l := rapid.SampledFrom(same).Draw(t, "wideleaf")
		f := float64(rapid.IntRange(1, 12).Draw(t, "widef")) / 8
		p.Nodes = append(p.Nodes, prog.Node{Op: "scale", In: []int{l}, F: f})
		if rapid.IntRange(0, 3).Draw(t, "widesin") == 0 {
			p.Nodes = append(p.Nodes, prog.Node{Op: "sin", In: []int{id()}})
		}
		parts = append(parts, id())
	}
	form := rapid.IntRange(0, 2).Draw(t, "wideform")
	if len(base) == 0 && form == 0 {
		form = 1
	}
	switch form {
	case 0:
		p.Nodes = append(p.Nodes, prog.Node{Op: "concat", In: parts, I: 0})
	case 1:
		acc := parts[0]
		for _, q := range parts[1:] {
			p.Nodes = append(p.Nodes, prog.Node{Op: "add", In: []int{acc, q}})
			acc = id()
		}
	default:
		for len(parts) > 1 {
			var next []int
			for i := 0; i+1 < len(parts); i += 2 {
				p.Nodes = append(p.Nodes, prog.Node{Op: "add", In: []int{parts[i], parts[i+1]}})
				next = append(next, id())
			}
			if len(parts)%2 == 1 {
				next = append(next, parts[len(parts)-1])
			}
			parts = next
		}
	}
	c := C01Case{P: p, Roots: []int{id()}, Order: []int{0}}
	c.Graph = make([]int, len(p.Nodes))
	return c
}

func seq(n int) []int {
	o := make([]int, n)
	for i := range o {
		o[i] = i
	}
	return o
}

// graphProgram restricts p to the leaves plus the nodes of graph gi, renumbering operands.
// It returns the sub-program and the map from old value id to new id (-1 = absent).
func graphProgram(c C01Case, gi int) (prog.Program, []int) {
	nl := len(c.P.Leaves)
	m := make([]int, nl+len(c.P.Nodes))
	sub := prog.Program{Leaves: c.P.Leaves}
	for i := range m {
		m[i] = -1
	}
	for i := 0; i < nl; i++ {
		m[i] = i
	}
	for i, n := range c.P.Nodes {
		if c.Graph[i] != gi {
			continue
		}
		nn := n
		nn.In = make([]int, len(n.In))
		for k, o := range n.In {
			nn.In[k] = m[o]
		}
		m[nl+i] = nl + len(sub.Nodes)
		sub.Nodes = append(sub.Nodes, nn)
	}
	return sub, m
}

type c01Class struct {
	fanout, reconv, deep, mixed, multi, rootNotLast bool
}

func checkC01(c C01Case) *Failure {
	nl := len(c.P.Leaves)
	total := nl + len(c.P.Nodes)
	if len(c.Graph) != len(c.P.Nodes) {
		return failf("malformed case")
	}
	// expected gradients, graph by graph, from the reference
	want := make([][]float64, total)
	wscale := make([][]float64, total)
	shapes := make([][]int, total)
	var cls c01Class
	for _, gi := range c.Order {
		sub, m := graphProgram(c, gi)
		tr := sub.Tracked()
		root := m[c.Roots[gi]]
		if root < 0 {
			return failf("malformed case: root of graph %d outside the graph", gi)
		}
		reach := sub.Reach(root, tr)
		vals, slot, ctx, err := prog.RunRef(sub, reach, false)
		if err != nil {
			return nil // not a valid program (only possible for hand-written replays)
		}
		if ctx.MinGap < 1e-6 || ctx.MinStd < 1e-3 {
			evid.Discard("near_kink")
			return nil
		}
		for old := 0; old < total; old++ {
			ni := m[old]
			if ni < 0 {
				continue
			}
			shapes[old] = vals[ni].Shape
			if !reach[ni] {
				continue
			}
			g, sc := prog.Adjoint(vals[root], nil, slot[ni], len(vals[ni].E))
			if want[old] == nil {
				want[old], wscale[old] = g, sc
			} else {
				for k := range g {
					want[old][k] += g[k]
					wscale[old][k] += sc[k]
				}
			}
		}
		// classification of this graph
		cons := make([]int, len(tr))
		for i, n := range sub.Nodes {
			if reach[nl+i] {
				for _, o := range n.In {
					if reach[o] {
						cons[o]++
					}
				}
			}
		}
		depth := make([]int, len(tr))
		for i, n := range sub.Nodes {
			for _, o := range n.In {
				if depth[o]+1 > depth[nl+i] {
					depth[nl+i] = depth[o] + 1
				}
			}
		}
		for i := nl; i < len(tr); i++ {
			if cons[i] >= 2 {
				cls.fanout = true
			}
		}
		if depth[root] >= 4 {
			cls.deep = true
		}
		if root != len(tr)-1 {
			cls.rootNotLast = true
		}
	}
	tr0, un0 := false, false
	for _, l := range c.P.Leaves {
		if l.Tracked {
			tr0 = true
		} else {
			un0 = true
		}
	}
	cls.mixed = tr0 && un0
	cls.multi = len(c.Order) > 1

	// library
	var vals []tensor.Tensor
	if !c.Interleave {
		var err error
		vals, err = prog.RunLib(c.P)
		if err != nil {
			return failf("forward call rejected on a valid program: %v", err)
		}
		for _, gi := range c.Order {
			if err := tensor.BackPropagate(vals[c.Roots[gi]]); err != nil {
				return failf("BackPropagate(root of graph %d) returned error: %v", gi, err)
			}
		}
	} else {
		// a tracked leaf may serve one graph only
		owner := make([]int, nl)
		for i := range owner {
			owner[i] = -1
		}
		for i, n := range c.P.Nodes {
			for _, o := range n.In {
				if o < nl && c.P.Leaves[o].Tracked {
					if owner[o] >= 0 && owner[o] != c.Graph[i] {
						return nil
					}
					owner[o] = c.Graph[i]
				}
			}
		}
		vals = make([]tensor.Tensor, total)
		for i, l := range c.P.Leaves {
			x, err := lib.NewVia(l.Shape, l.Vals, l.Tracked, l.Via)
			if err != nil {
				return failf("leaf %d: %v", i, err)
			}
			vals[i] = x
		}
		for _, gi := range c.Order {
			for i, n := range c.P.Nodes {
				if c.Graph[i] != gi {
					continue
				}
				in := make([]tensor.Tensor, len(n.In))
				for k, o := range n.In {
					in[k] = vals[o]
					if in[k] == nil {
						return nil
					}
				}
				y, err := prog.ApplyLib(n, in, nil)
				if err != nil {
					return failf("forward call rejected on a valid program (graph %d built after earlier back-propagations): node %d (%s): %v", gi, i, n.Op, err)
				}
				vals[nl+i] = y
			}
			if err := tensor.BackPropagate(vals[c.Roots[gi]]); err != nil {
				return failf("BackPropagate(root of graph %d) returned error: %v", gi, err)
			}
		}
	}
	for i := 0; i < total; i++ {
		g := vals[i].Gradient()
		if want[i] == nil {
			if g != nil {
				return failf("value %d is not a tracked tensor of any back-propagated graph but has a gradient", i)
			}
			continue
		}
		if g == nil {
			return failf("value %d (tracked, on a path from a root) has no gradient", i)
		}
		gs, gv, err := lib.Read(g)
		if err != nil {
			return failf("value %d: gradient unreadable: %v", i, err)
		}
		if !ref.EqShape(gs, shapes[i]) {
			return failf("value %d: gradient shape %v, tensor shape %v", i, gs, shapes[i])
		}
		for k := range gv {
			if !closeTo(gv[k], want[i][k], wscale[i][k]) {
				return failf("value %d: gradient[%d] = %v, total derivative = %v", i, k, gv[k], want[i][k])
			}
		}
	}
	evid.Eval()
	if cls.fanout {
		evid.Class("c01.fanout_interior")
		evid.NonTrivial(c)
	}
	if cls.deep {
		evid.Class("c01.depth>=4")
	}
	if cls.mixed {
		evid.Class("c01.mixed_tracked_untracked_leaves")
	}
	if cls.multi {
		evid.Class("c01.multi_graph_shared_leaves")
		if len(c.Roots) >= 9 {
			evid.Class("c01.nine_or_more_graphs_over_the_same_leaves")
		}
	}
	if c.Interleave {
		evid.Class("c01.graphs_built_between_backpropagations")
	}
	if len(c.Roots) == 1 && len(c.P.Nodes) >= 18 {
		evid.Class("c01.wide_graph_17_or_more_branches")
	}
	if cls.rootNotLast {
		evid.Class("c01.root_not_last")
	}
	evid.Class(fmt.Sprintf("c01.nodes=%02d", len(c.P.Nodes)/4*4))
	return nil
}

func TestC01_dag(t *testing.T) {
	run(t, 6000, func(rt *rapid.T) {
		c := genC01(rt)
		if f := guard(func() *Failure { return checkC01(c) }); f != nil {
			fail(rt, "C01/dag", c, f)
		}
	})
}

/* ---------- bounded work: diamond chains ---------- */

// C01Diamond: x_{i+1} = f_i(x_i) (op) g_i(x_i); the straight twin computes the second branch
// from a second tracked leaf of the same shape, so it has the same number of tracked operations
// but no shared sub-expression.
type C01Diamond struct {
	N     int       `json:"n"`     // elements
	Vals  []float64 `json:"vals"`  // leaf values
	Depth int       `json:"depth"` // number of diamonds
	F     []int     `json:"f"`     // per level: unary op of branch 1
	G     []int     `json:"g"`     // per level: unary op of branch 2
	J     []int     `json:"j"`     // per level: join op (0 add, 1 mul, 2 sub)
	// FL / GL: how many times the unary op of a branch is applied in a row (absent = once):
	// diamonds whose branches are long chains, i.e. graphs with many more contexts
	FL []int `json:"fl,omitempty"`
	GL []int `json:"gl,omitempty"`
}

func (c C01Diamond) fl(i int) int {
	if i < len(c.FL) && c.FL[i] > 1 {
		return c.FL[i]
	}
	return 1
}
func (c C01Diamond) gl(i int) int {
	if i < len(c.GL) && c.GL[i] > 1 {
		return c.GL[i]
	}
	return 1
}

func init() { register("C01/diamond", checkC01Diamond) }

var diamondUnary = []func(tensor.Tensor) tensor.Tensor{
	func(x tensor.Tensor) tensor.Tensor { return x.Scale(0.5) },
	func(x tensor.Tensor) tensor.Tensor { return x.Sin() },
	func(x tensor.Tensor) tensor.Tensor { return x.Tanh() },
	func(x tensor.Tensor) tensor.Tensor { return x.Cos() },
	func(x tensor.Tensor) tensor.Tensor { return x.Scale(-1) },
}

func diamondJoin(j int, a, b tensor.Tensor) (tensor.Tensor, error) {
	switch j {
	case 0:
		return a.Add(b)
	case 1:
		return a.Mul(b)
	default:
		return a.Sub(b)
	}
}

func mallocsDuring(f func()) uint64 {
	var a, b runtime.MemStats
	runtime.GC()
	runtime.ReadMemStats(&a)
	f()
	runtime.ReadMemStats(&b)
	return b.Mallocs - a.Mallocs
}

func genC01Diamond(t *rapid.T) C01Diamond {
	lo, hi := 10, 16
	if thorough() {
		hi = 20
	}
	c := C01Diamond{N: rapid.IntRange(1, 6).Draw(t, "n"), Depth: rapid.IntRange(lo, hi).Draw(t, "depth")}
	long := rapid.IntRange(0, 4).Draw(t, "longbranches") == 0
	if long {
		c.Depth = rapid.IntRange(2, 5).Draw(t, "shallow")
	}
	c.Vals = prog.DrawVals(t, c.N, 0, -8, 8)
	for i := 0; i < c.Depth; i++ {
		c.F = append(c.F, rapid.IntRange(0, len(diamondUnary)-1).Draw(t, "f"))
		c.G = append(c.G, rapid.IntRange(0, len(diamondUnary)-1).Draw(t, "g"))
		c.J = append(c.J, rapid.IntRange(0, 2).Draw(t, "j"))
		if long {
			c.FL = append(c.FL, rapid.SampledFrom([]int{1, 1, 2, 30, 70}).Draw(t, "fl"))
			c.GL = append(c.GL, rapid.SampledFrom([]int{1, 1, 2, 30, 70}).Draw(t, "gl"))
		}
	}
	return c
}

// checkC01Diamond compares the heap allocations of back-propagating the diamond chain with
// those of a straight chain with the same operations. Every tensor operation inside a
// backward rule allocates, so the ratio measures how often rules are applied; it does not
// depend on the clock. A once-per-edge implementation gives a ratio of about 2, a per-path
// walk 2^depth.
func checkC01Diamond(c C01Diamond) *Failure {
	if c.Depth > 24 || len(c.F) != c.Depth || len(c.G) != c.Depth || len(c.J) != c.Depth {
		return failf("malformed case")
	}
	for i := 0; i < c.Depth; i++ {
		if c.fl(i) > 200 || c.gl(i) > 200 {
			return nil
		}
	}
	build := func(diamond bool) (tensor.Tensor, tensor.Tensor, error) {
		x := lib.MustNew([]int{c.N}, c.Vals, true)
		// the straight twin takes its second branches from another tracked leaf: the same
		// number of tracked operations, but no sub-expression is shared
		k := lib.MustNew([]int{c.N}, c.Vals, true)
		cur := x
		for i := 0; i < c.Depth; i++ {
			a := cur
			for r := 0; r < c.fl(i); r++ {
				a = diamondUnary[c.F[i]](a)
			}
			b := k
			if diamond {
				b = cur
			}
			for r := 0; r < c.gl(i); r++ {
				b = diamondUnary[c.G[i]](b)
			}
			var err error
			cur, err = diamondJoin(c.J[i], a, b)
			if err != nil {
				return nil, nil, err
			}
		}
		return x, cur, nil
	}
	// reference gradient of the diamond (forward-mode, linear work)
	ctx := ref.NewCtx(c.N)
	rx := ctx.SeedBlock(ref.FromVals([]int{c.N}, c.Vals), 0)
	un := func(k int, v ref.T) ref.T {
		switch k {
		case 0:
			return ctx.Unary("scale", v, 0.5)
		case 1:
			return ctx.Unary("sin", v, 0)
		case 2:
			return ctx.Unary("tanh", v, 0)
		case 3:
			return ctx.Unary("cos", v, 0)
		}
		return ctx.Unary("scale", v, -1)
	}
	cur := rx
	for i := 0; i < c.Depth; i++ {
		a, b := cur, cur
		for r := 0; r < c.fl(i); r++ {
			a = un(c.F[i], a)
		}
		for r := 0; r < c.gl(i); r++ {
			b = un(c.G[i], b)
		}
		cur, _ = ctx.Binary([]string{"add", "mul", "sub"}[c.J[i]], a, b)
	}
	want, wsc := prog.Adjoint(cur, nil, 0, c.N)

	_, chainRoot, err := build(false)
	if err != nil {
		return failf("chain forward failed: %v", err)
	}
	var bpErr error
	chainAllocs := mallocsDuring(func() { bpErr = tensor.BackPropagate(chainRoot) })
	if bpErr != nil {
		return failf("chain BackPropagate: %v", bpErr)
	}
	x, root, err := build(true)
	if err != nil {
		return failf("diamond forward failed: %v", err)
	}
	diaAllocs := mallocsDuring(func() { bpErr = tensor.BackPropagate(root) })
	if bpErr != nil {
		return failf("diamond BackPropagate: %v", bpErr)
	}
	ratio := float64(diaAllocs) / float64(chainAllocs+1)
	if ratio > 40 {
		return failf("back-propagating a diamond chain of depth %d took %d allocations, the straight chain with the same operations %d (ratio %.0f > 40): rules are applied once per path", c.Depth, diaAllocs, chainAllocs, ratio)
	}
	g := x.Gradient()
	if g == nil {
		return failf("leaf of the diamond chain has no gradient")
	}
	_, gv, err := lib.Read(g)
	if err != nil || len(gv) != c.N {
		return failf("leaf gradient unreadable or wrong size: %v", err)
	}
	for k := range gv {
		if !closeTo(gv[k], want[k], wsc[k]) {
			return failf("diamond depth %d: leaf gradient[%d] = %v, total derivative = %v", c.Depth, k, gv[k], want[k])
		}
	}
	evid.Eval()
	evid.Class(fmt.Sprintf("c01.diamond_depth=%02d", c.Depth))
	if len(c.FL) > 0 {
		evid.Class("c01.diamond_with_long_branches")
	}
	evid.NonTrivial(c)
	return nil
}

func TestC01_diamond(t *testing.T) {
	run(t, 200, func(rt *rapid.T) {
		c := genC01Diamond(rt)
		if f := guard(func() *Failure { return checkC01Diamond(c) }); f != nil {
			fail(rt, "C01/diamond", c, f)
		}
	})
}
