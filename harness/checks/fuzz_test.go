package checks

import (
	"testing"

	"pgregory.net/rapid"
)

// Native coverage-guided fuzz targets (thorough tier only): the fuzzer's bytes drive the same
// rapid generators, so the byte-decodable argument spaces of C03, C06 and C09 are explored
// with coverage feedback from the library. The semantic oracle is inside the target.

func FuzzC03(f *testing.F) {
	f.Fuzz(rapid.MakeFuzz(func(rt *rapid.T) {
		c := genC03(rt)
		if fl := guard(func() *Failure { return checkC03(c) }); fl != nil {
			fail(rt, "C03/elementwise", c, fl)
		}
	}))
}

func FuzzC06(f *testing.F) {
	f.Fuzz(rapid.MakeFuzz(func(rt *rapid.T) {
		c := genC06(rt)
		if fl := guard(func() *Failure { return checkC06(c) }); fl != nil {
			fail(rt, "C06/structure", c, fl)
		}
	}))
}

func FuzzC09(f *testing.F) {
	f.Fuzz(rapid.MakeFuzz(func(rt *rapid.T) {
		c := genC09(rt)
		if fl := guard(func() *Failure { return checkC09(c) }); fl != nil {
			fail(rt, "C09/total", c, fl)
		}
	}))
}
