// Package lib adapts between the flat reference representation and qeep's public API.
// It only uses the public packages of qeep.
package lib

import (
	"fmt"
	"math"

	"github.com/sahandsafizadeh/qeep/tensor"

	"qeepverif/ref"
)

func Conf(tracked bool) *tensor.Config {
	return &tensor.Config{Device: tensor.CPU, GradTrack: tracked}
}

// Nested builds the nested slice TensorOf accepts (rank 0..4) from flat row-major values.
func Nested(shape []int, v []float64) any {
	switch len(shape) {
	case 0:
		return v[0]
	case 1:
		return append([]float64{}, v...)
	case 2:
		o := make([][]float64, shape[0])
		n := shape[1]
		for i := range o {
			o[i] = append([]float64{}, v[i*n:(i+1)*n]...)
		}
		return o
	case 3:
		o := make([][][]float64, shape[0])
		n := shape[1] * shape[2]
		for i := range o {
			o[i] = Nested(shape[1:], v[i*n:(i+1)*n]).([][]float64)
		}
		return o
	case 4:
		o := make([][][][]float64, shape[0])
		n := shape[1] * shape[2] * shape[3]
		for i := range o {
			o[i] = Nested(shape[1:], v[i*n:(i+1)*n]).([][][]float64)
		}
		return o
	}
	panic("lib.Nested: rank > 4")
}

// TensorOfAny dispatches TensorOf over the five accepted data types.
func TensorOfAny(data any, conf *tensor.Config) (tensor.Tensor, error) {
	switch d := data.(type) {
	case float64:
		return tensor.TensorOf(d, conf)
	case []float64:
		return tensor.TensorOf(d, conf)
	case [][]float64:
		return tensor.TensorOf(d, conf)
	case [][][]float64:
		return tensor.TensorOf(d, conf)
	case [][][][]float64:
		return tensor.TensorOf(d, conf)
	}
	panic("lib.TensorOfAny: bad type")
}

// New builds a qeep tensor of the given shape and flat values. Ranks up to 4 use TensorOf
// directly; higher ranks use a flat TensorOf plus Reshape, then ResetGradContext to obtain a
// leaf with the requested tracking (C06 checks Reshape/At independently of this path).
func New(shape []int, v []float64, tracked bool) (tensor.Tensor, error) {
	if len(v) != ref.Prod(shape) {
		return nil, fmt.Errorf("lib.New: %d values for shape %v", len(v), shape)
	}
	if len(shape) <= 4 {
		return TensorOfAny(Nested(shape, v), Conf(tracked))
	}
	x, err := tensor.TensorOf(append([]float64{}, v...), Conf(false))
	if err != nil {
		return nil, err
	}
	x, err = x.Reshape(append([]int{}, shape...))
	if err != nil {
		return nil, err
	}
	x.ResetGradContext(tracked)
	return x, nil
}

func MustNew(shape []int, v []float64, tracked bool) tensor.Tensor {
	x, err := New(shape, v, tracked)
	if err != nil {
		panic(fmt.Sprintf("lib.MustNew(%v): %v", shape, err))
	}
	return x
}

// Read returns shape and flat row-major values of a qeep tensor through Shape and At.
func Read(x tensor.Tensor) (shape []int, v []float64, err error) {
	shape = x.Shape()
	for _, d := range shape {
		if d <= 0 {
			return shape, nil, fmt.Errorf("non-positive dimension in shape %v", shape)
		}
	}
	n := ref.Prod(shape)
	v = make([]float64, n)
	idx := make([]int, len(shape))
	for i := 0; i < n; i++ {
		v[i], err = x.At(idx...)
		if err != nil {
			return shape, nil, fmt.Errorf("At(%v) on shape %v: %w", idx, shape, err)
		}
		for k := len(idx) - 1; k >= 0; k-- {
			idx[k]++
			if idx[k] < shape[k] {
				break
			}
			idx[k] = 0
		}
	}
	return shape, v, nil
}

// SameBits reports whether two floats are bit-identical, with any NaN equal to any NaN.
func SameBits(a, b float64) bool {
	if math.IsNaN(a) && math.IsNaN(b) {
		return true
	}
	return math.Float64bits(a) == math.Float64bits(b)
}

// SameNum is SameBits except that -0 equals +0.
func SameNum(a, b float64) bool {
	if math.IsNaN(a) && math.IsNaN(b) {
		return true
	}
	return a == b
}

type Snapshot struct {
	Shape []int
	V     []float64
	HasG  bool
	GS    []int
	GV    []float64
}

// Snap captures shape, elements and gradient of x (bit-exact comparisons use Equal).
func Snap(x tensor.Tensor) (s Snapshot, err error) {
	s.Shape, s.V, err = Read(x)
	if err != nil {
		return
	}
	if g := x.Gradient(); g != nil {
		s.HasG = true
		s.GS, s.GV, err = Read(g)
	}
	return
}

func (a Snapshot) Equal(b Snapshot) bool {
	if !ref.EqShape(a.Shape, b.Shape) || a.HasG != b.HasG || !ref.EqShape(a.GS, b.GS) {
		return false
	}
	for i := range a.V {
		if !SameBits(a.V[i], b.V[i]) {
			return false
		}
	}
	if len(a.GV) != len(b.GV) {
		return false
	}
	for i := range a.GV {
		if !SameBits(a.GV[i], b.GV[i]) {
			return false
		}
	}
	return true
}

// warm calls every read-only method of x (reducers, accessors), so that any state the
// library might memoise on a tensor is populated before the tensor is used further.
func warm(x tensor.Tensor) {
	_ = x.Sum() + x.Max() + x.Min() + x.Avg() + x.Var() + x.Std() + x.Mean()
	_ = x.NElems()
	s := x.Shape()
	_, _ = x.Reshape([]int{x.NElems()})
	_, _ = x.Slice(nil)
	_, _ = x.UnSqueeze(0)
	_, _ = x.Broadcast(s)
	_, _ = x.Add(x)
	_ = x.Scale(1)
	if len(s) >= 1 {
		_, _ = x.Flatten(0)
		_, _ = x.SumAlong(len(s) - 1)
		_, _ = x.Dot(x)
	}
	if len(s) >= 2 {
		_, _ = x.Transpose()
		// products with lower-rank partners whose shapes fit the trailing dims
		n := s[len(s)-1]
		if w, err := New([]int{n, 1}, make([]float64, n), false); err == nil {
			_, _ = x.MatMul(w)
		}
		if v, err := New([]int{n}, make([]float64, n), false); err == nil {
			_, _ = x.Dot(v)
			_, _ = x.Mul(v)
		}
		if w, err := New([]int{n, n}, make([]float64, n*n), false); err == nil {
			_, _ = x.MatMul(w)
		}
	}
	_, _ = x.Patch(nil, x)
	if len(s) >= 1 {
		_, _ = tensor.Concat([]tensor.Tensor{x, x}, 0)
	}
	idx := make([]int, len(s))
	_, _ = x.At(idx...)
}

func junk(n int) []float64 {
	v := make([]float64, n)
	for i := range v {
		v[i] = 1000.5 + float64(i)*3
	}
	return v
}

// NViaModes is the number of provenance modes of NewVia.
const NViaModes = 7

// NewVia builds a tensor of the given shape and values like New, but through a derivation
// (provenance) chosen by via, so that the operand of a checked operation is not always a
// fresh TensorOf result: state carried over from earlier calls or from the tensors it was
// derived from (caches, shared storage) must not change what the operation computes.
//   0 TensorOf directly            1 full-block Patch over a warmed tensor with other values
//   2 warmed (all reducers called) 3 Slice of a warmed, larger tensor
//   4 Reshape of a warmed flat one 5 Concat of two warmed halves
//   6 Transpose of the warmed transposed data
// Every derived tensor is turned into a fresh leaf with the requested tracking at the end.
// Modes that do not apply to the shape fall back to mode 2.
func NewVia(shape []int, v []float64, tracked bool, via int) (tensor.Tensor, error) {
	if via <= 0 || via >= NViaModes {
		return New(shape, v, tracked)
	}
	n := len(v)
	rank := len(shape)
	var x tensor.Tensor
	var err error
	switch {
	case via == 1:
		other, e := New(shape, junk(n), false)
		if e != nil {
			return nil, e
		}
		warm(other)
		real, e := New(shape, v, false)
		if e != nil {
			return nil, e
		}
		x, err = other.Patch(nil, real)
	case via == 3 && rank >= 1:
		big := append([]int{shape[0] + 1}, shape[1:]...)
		row := n / shape[0]
		bt, e := New(big, append(append([]float64{}, v...), junk(row)...), false)
		if e != nil {
			return nil, e
		}
		warm(bt)
		x, err = bt.Slice([]tensor.Range{{From: 0, To: shape[0]}})
	case via == 4 && rank != 1:
		flat, e := New([]int{n}, v, false)
		if e != nil {
			return nil, e
		}
		warm(flat)
		x, err = flat.Reshape(append([]int{}, shape...))
	case via == 5 && rank >= 1 && shape[0] >= 2:
		k := shape[0] / 2
		row := n / shape[0]
		a, e := New(append([]int{k}, shape[1:]...), v[:k*row], false)
		if e != nil {
			return nil, e
		}
		b, e := New(append([]int{shape[0] - k}, shape[1:]...), v[k*row:], false)
		if e != nil {
			return nil, e
		}
		warm(a)
		warm(b)
		x, err = tensor.Concat([]tensor.Tensor{a, b}, 0)
	case via == 6 && rank >= 2:
		ts := append([]int{}, shape...)
		ts[rank-1], ts[rank-2] = ts[rank-2], ts[rank-1]
		tv := make([]float64, n)
		for i := range tv {
			idx := ref.Unravel(i, ts)
			idx[rank-1], idx[rank-2] = idx[rank-2], idx[rank-1]
			tv[i] = v[ref.Ravel(idx, shape)]
		}
		tt, e := New(ts, tv, false)
		if e != nil {
			return nil, e
		}
		warm(tt)
		x, err = tt.Transpose()
	default:
		x, err = New(shape, v, false)
		if err == nil {
			warm(x)
		}
	}
	if err != nil {
		return nil, err
	}
	x.ResetGradContext(tracked)
	return x, nil
}
