// Package lib adapts between the flat reference representation and qeep's public API.
// It only uses the public packages of qeep.
package lib

import (
	"fmt"
	"math"

	"github.com/sahandsafizadeh/qeep/tensor"

	"qeepverif/ref"
)

func Conf(tracked bool) *tensor.Config {
	return &tensor.Config{Device: tensor.CPU, GradTrack: tracked}
}

// Nested builds the nested slice TensorOf accepts (rank 0..4) from flat row-major values.
func Nested(shape []int, v []float64) any {
	switch len(shape) {
	case 0:
		return v[0]
	case 1:
		return append([]float64{}, v...)
	case 2:
		o := make([][]float64, shape[0])
		n := shape[1]
		for i := range o {
			o[i] = append([]float64{}, v[i*n:(i+1)*n]...)
		}
		return o
	case 3:
		o := make([][][]float64, shape[0])
		n := shape[1] * shape[2]
		for i := range o {
			o[i] = Nested(shape[1:], v[i*n:(i+1)*n]).([][]float64)
		}
		return o
	case 4:
		o := make([][][][]float64, shape[0])
		n := shape[1] * shape[2] * shape[3]
		for i := range o {
			o[i] = Nested(shape[1:], v[i*n:(i+1)*n]).([][][]float64)
		}
		return o
	}
	panic("lib.Nested: rank > 4")
}

// TensorOfAny dispatches TensorOf over the five accepted data types.
func TensorOfAny(data any, conf *tensor.Config) (tensor.Tensor, error) {
	switch d := data.(type) {
	case float64:
		return tensor.TensorOf(d, conf)
	case []float64:
		return tensor.TensorOf(d, conf)
	case [][]float64:
		return tensor.TensorOf(d, conf)
	case [][][]float64:
		return tensor.TensorOf(d, conf)
	case [][][][]float64:
		return tensor.TensorOf(d, conf)
	}
	panic("lib.TensorOfAny: bad type")
}

// New builds a qeep tensor of the given shape and flat values. Ranks up to 4 use TensorOf
// directly; higher ranks use a flat TensorOf plus Reshape, then ResetGradContext to obtain a
// leaf with the requested tracking (C06 checks Reshape/At independently of this path).
func New(shape []int, v []float64, tracked bool) (tensor.Tensor, error) {
	if len(v) != ref.Prod(shape) {
		return nil, fmt.Errorf("lib.New: %d values for shape %v", len(v), shape)
	}
	if len(shape) <= 4 {
		return TensorOfAny(Nested(shape, v), Conf(tracked))
	}
	x, err := tensor.TensorOf(append([]float64{}, v...), Conf(false))
	if err != nil {
		return nil, err
	}
	x, err = x.Reshape(append([]int{}, shape...))
	if err != nil {
		return nil, err
	}
	x.ResetGradContext(tracked)
	return x, nil
}

func MustNew(shape []int, v []float64, tracked bool) tensor.Tensor {
	x, err := New(shape, v, tracked)
	if err != nil {
		panic(fmt.Sprintf("lib.MustNew(%v): %v", shape, err))
	}
	return x
}

// Read returns shape and flat row-major values of a qeep tensor through Shape and At.
func Read(x tensor.Tensor) (shape []int, v []float64, err error) {
	shape = x.Shape()
	for _, d := range shape {
		if d <= 0 {
			return shape, nil, fmt.Errorf("non-positive dimension in shape %v", shape)
		}
	}
	n := ref.Prod(shape)
	v = make([]float64, n)
	idx := make([]int, len(shape))
	for i := 0; i < n; i++ {
		v[i], err = x.At(idx...)
		if err != nil {
			return shape, nil, fmt.Errorf("At(%v) on shape %v: %w", idx, shape, err)
		}
		for k := len(idx) - 1; k >= 0; k-- {
			idx[k]++
			if idx[k] < shape[k] {
				break
			}
			idx[k] = 0
		}
	}
	return shape, v, nil
}

// SameBits reports whether two floats are bit-identical, with any NaN equal to any NaN.
func SameBits(a, b float64) bool {
	if math.IsNaN(a) && math.IsNaN(b) {
		return true
	}
	return math.Float64bits(a) == math.Float64bits(b)
}

// SameNum is SameBits except that -0 equals +0.
func SameNum(a, b float64) bool {
	if math.IsNaN(a) && math.IsNaN(b) {
		return true
	}
	return a == b
}

type Snapshot struct {
	Shape []int
	V     []float64
	HasG  bool
	GS    []int
	GV    []float64
	// Sum: the tensor as its whole-tensor reducers see it (a second read path next to At)
	Sum float64
}

// Snap captures shape, elements and gradient of x (bit-exact comparisons use Equal).
func Snap(x tensor.Tensor) (s Snapshot, err error) {
	s.Shape, s.V, err = Read(x)
	if err != nil {
		return
	}
	s.Sum = x.Sum()
	if g := x.Gradient(); g != nil {
		s.HasG = true
		s.GS, s.GV, err = Read(g)
	}
	return
}

func (a Snapshot) Equal(b Snapshot) bool {
	if !ref.EqShape(a.Shape, b.Shape) || a.HasG != b.HasG || !ref.EqShape(a.GS, b.GS) || !SameBits(a.Sum, b.Sum) {
		return false
	}
	for i := range a.V {
		if !SameBits(a.V[i], b.V[i]) {
			return false
		}
	}
	if len(a.GV) != len(b.GV) {
		return false
	}
	for i := range a.GV {
		if !SameBits(a.GV[i], b.GV[i]) {
			return false
		}
	}
	return true
}

// warm calls every read-only method of x (reducers, accessors), so that any state the
// library might memoise on a tensor is populated before the tensor is used further.
func warm(x tensor.Tensor) {
	_ = x.Sum() + x.Max() + x.Min() + x.Avg() + x.Var() + x.Std() + x.Mean()
	_ = x.NElems()
	s := x.Shape()
	_, _ = x.Reshape([]int{x.NElems()})
	_, _ = x.Slice(nil)
	_, _ = x.UnSqueeze(0)
	_, _ = x.UnSqueeze(len(s))
	_, _ = x.Broadcast(s)
	_, _ = x.Broadcast(append([]int{2}, s...))
	_, _ = x.Add(x)
	_ = x.Scale(1)
	if len(s) >= 1 {
		_, _ = x.Flatten(0)
		_, _ = x.SumAlong(len(s) - 1)
		_, _ = x.Dot(x)
	}
	if len(s) >= 2 {
		_, _ = x.Transpose()
		// products with lower-rank partners whose shapes fit the trailing dims
		n := s[len(s)-1]
		if w, err := New([]int{n, 1}, make([]float64, n), false); err == nil {
			_, _ = x.MatMul(w)
		}
		if v, err := New([]int{n}, make([]float64, n), false); err == nil {
			_, _ = x.Dot(v)
			_, _ = x.Mul(v)
		}
		if w, err := New([]int{n, n}, make([]float64, n*n), false); err == nil {
			_, _ = x.MatMul(w)
		}
	}
	_, _ = x.Patch(nil, x)
	if len(s) >= 1 {
		_, _ = tensor.Concat([]tensor.Tensor{x, x}, 0)
	}
	idx := make([]int, len(s))
	_, _ = x.At(idx...)
}

// Warm uses x the way any tensor may be used (every reducer, accessor and reshaping method,
// products and concatenations with itself); results are dropped.
func Warm(x tensor.Tensor) { warm(x) }

// allFiniteNonNegZero: sums of the values with zeros reproduce them bit for bit.
func allFiniteNonNegZero(v []float64) bool {
	for _, x := range v {
		if math.IsNaN(x) || math.IsInf(x, 0) || (x == 0 && math.Signbit(x)) {
			return false
		}
	}
	return true
}

func junk(n int) []float64 {
	v := make([]float64, n)
	for i := range v {
		v[i] = 1000.5 + float64(i)*3
	}
	return v
}

// NViaModes is the number of provenance modes of NewVia.
const NViaModes = 14

// ancestor is a tensor an operand was derived from, with the values it was built to hold.
type ancestor struct {
	what  string
	x     tensor.Tensor
	shape []int
	v     []float64
}

var ancestors []ancestor

// ResetAncestors forgets the tensors recorded by NewVia (call at the start of a case).
func ResetAncestors() { ancestors = ancestors[:0] }

func remember(what string, x tensor.Tensor, shape []int, v []float64) {
	if len(ancestors) < 64 {
		ancestors = append(ancestors, ancestor{what, x, append([]int{}, shape...), append([]float64{}, v...)})
	}
}

// CheckAncestors verifies that every tensor an operand was derived from (the larger tensor it
// was sliced from, the halves it was concatenated from, ...) still has the shape and elements
// it was built with: a later call on the derived tensor must not write through to them.
func CheckAncestors() error {
	for _, a := range ancestors {
		s, v, err := Read(a.x)
		if err != nil {
			return fmt.Errorf("%s became unreadable: %w", a.what, err)
		}
		if !ref.EqShape(s, a.shape) {
			return fmt.Errorf("%s changed its shape from %v to %v", a.what, a.shape, s)
		}
		for i := range v {
			if !SameBits(v[i], a.v[i]) {
				return fmt.Errorf("%s changed element %v from %v to %v", a.what, ref.Unravel(i, s), a.v[i], v[i])
			}
		}
	}
	return nil
}

// NewVia builds a tensor of the given shape and values like New, but through a derivation
// (provenance) chosen by via, so that the operand of a checked operation is not always a
// fresh TensorOf result: state carried over from earlier calls or from the tensors it was
// derived from (caches, shared storage, flags set by constructors) must not change what the
// operation computes.
//   0 TensorOf directly            1 full-block Patch over a warmed tensor with other values
//   2 warmed (all reducers called) 3 Slice of a warmed, larger tensor (leading dimension)
//   4 Reshape of a warmed flat one 5 Concat of two warmed halves
//   6 Transpose of the warmed transposed data
//   7 values patched block by block over a special constructor (Eye for square matrices,
//     else Zeros / Ones / Full)    8 Slice out of the middle of the last dimension of a larger tensor
//   9 element-wise product with Ones (result of an arithmetic operation)
//   10 Concat along the last dimension of two pieces, the first a Slice of a larger tensor
//   11 matrix product with the identity (finite values, rank >= 2): the result of a MatMul
//   12 SumAlong(0) of the values under an extra leading dimension of size 1: a reduction result
//   13 computed (Scale(1)) from a tensor that a back-propagation has passed through: until the
//      final reset it is a result "computed from a spent tensor"
// Every derived tensor is turned into a fresh leaf with the requested tracking at the end.
// Modes that do not apply to the shape fall back to mode 2. The tensors the result was derived
// from are remembered (CheckAncestors).
func NewVia(shape []int, v []float64, tracked bool, via int) (tensor.Tensor, error) {
	if via <= 0 || via >= NViaModes {
		return New(shape, v, tracked)
	}
	n := len(v)
	rank := len(shape)
	var x tensor.Tensor
	var err error
	switch {
	case via == 1:
		other, e := New(shape, junk(n), false)
		if e != nil {
			return nil, e
		}
		warm(other)
		real, e := New(shape, v, false)
		if e != nil {
			return nil, e
		}
		x, err = other.Patch(nil, real)
		remember("the tensor the operand was patched over", other, shape, junk(n))
		remember("the block the operand was patched with", real, shape, v)
	case via == 3 && rank >= 1:
		big := append([]int{shape[0] + 1}, shape[1:]...)
		row := n / shape[0]
		bv := append(append([]float64{}, v...), junk(row)...)
		bt, e := New(big, bv, false)
		if e != nil {
			return nil, e
		}
		warm(bt)
		x, err = bt.Slice([]tensor.Range{{From: 0, To: shape[0]}})
		remember("the larger tensor the operand was sliced from", bt, big, bv)
	case via == 4 && rank != 1:
		flat, e := New([]int{n}, v, false)
		if e != nil {
			return nil, e
		}
		warm(flat)
		x, err = flat.Reshape(append([]int{}, shape...))
		remember("the flat tensor the operand was reshaped from", flat, []int{n}, v)
	case via == 5 && rank >= 1 && shape[0] >= 2:
		k := shape[0] / 2
		row := n / shape[0]
		sa, sb := append([]int{k}, shape[1:]...), append([]int{shape[0] - k}, shape[1:]...)
		a, e := New(sa, v[:k*row], false)
		if e != nil {
			return nil, e
		}
		b, e := New(sb, v[k*row:], false)
		if e != nil {
			return nil, e
		}
		warm(a)
		warm(b)
		x, err = tensor.Concat([]tensor.Tensor{a, b}, 0)
		remember("the first half the operand was concatenated from", a, sa, v[:k*row])
		remember("the second half the operand was concatenated from", b, sb, v[k*row:])
	case via == 6 && rank >= 2:
		ts := append([]int{}, shape...)
		ts[rank-1], ts[rank-2] = ts[rank-2], ts[rank-1]
		tv := make([]float64, n)
		for i := range tv {
			idx := ref.Unravel(i, ts)
			idx[rank-1], idx[rank-2] = idx[rank-2], idx[rank-1]
			tv[i] = v[ref.Ravel(idx, shape)]
		}
		tt, e := New(ts, tv, false)
		if e != nil {
			return nil, e
		}
		warm(tt)
		x, err = tt.Transpose()
		remember("the tensor the operand was transposed from", tt, ts, tv)
	case via == 7 && rank >= 1:
		// a special constructor's result, overwritten block by block (rows of the leading dim)
		var base tensor.Tensor
		var e error
		switch {
		case rank == 2 && shape[0] == shape[1]:
			base, e = tensor.Eye(shape[0], Conf(false))
		case n%3 == 0:
			base, e = tensor.Zeros(append([]int{}, shape...), Conf(false))
		case n%3 == 1:
			base, e = tensor.Ones(append([]int{}, shape...), Conf(false))
		default:
			base, e = tensor.Full(append([]int{}, shape...), 0.5, Conf(false))
		}
		if e != nil {
			return nil, e
		}
		row := n / shape[0]
		x = base
		for r := 0; r < shape[0] && err == nil; r++ {
			blk, e := New(append([]int{1}, shape[1:]...), v[r*row:(r+1)*row], false)
			if e != nil {
				return nil, e
			}
			x, err = x.Patch([]tensor.Range{{From: r, To: r + 1}}, blk)
		}
	case via == 8 && rank >= 1:
		// columns [1, 1+d) of a tensor with d+3 columns: the rows of the larger tensor continue
		// past the end of the operand's rows
		d := shape[rank-1]
		big := append(append([]int{}, shape[:rank-1]...), d+3)
		bv := make([]float64, n/d*(d+3))
		for r := 0; r < n/d; r++ {
			bv[r*(d+3)] = 2000.5 + float64(r)
			copy(bv[r*(d+3)+1:], v[r*d:(r+1)*d])
			bv[r*(d+3)+d+1] = 3000.5 + float64(r)
			bv[r*(d+3)+d+2] = 4000.5 + float64(r)
		}
		bt, e := New(big, bv, false)
		if e != nil {
			return nil, e
		}
		idx := make([]tensor.Range, rank)
		idx[rank-1] = tensor.Range{From: 1, To: 1 + d}
		x, err = bt.Slice(idx)
		remember("the wider tensor the operand was sliced from", bt, big, bv)
	case via == 9:
		real, e := New(shape, v, false)
		if e != nil {
			return nil, e
		}
		ones, e := tensor.Ones(append([]int{}, shape...), Conf(false))
		if e != nil {
			return nil, e
		}
		x, err = real.Mul(ones)
		remember("the tensor the operand was computed from", real, shape, v)
	case via == 10 && rank >= 1 && shape[rank-1] >= 2:
		// Concat along the last dimension; the first piece is a Slice that stops before the
		// end of a wider tensor's rows
		d := shape[rank-1]
		k := d / 2
		rows := n / d
		wide := append(append([]int{}, shape[:rank-1]...), d+1)
		wv := make([]float64, rows*(d+1))
		sb := append(append([]int{}, shape[:rank-1]...), d-k)
		bvals := make([]float64, rows*(d-k))
		for r := 0; r < rows; r++ {
			copy(wv[r*(d+1):], v[r*d:r*d+k])
			for j := k; j < d+1; j++ {
				wv[r*(d+1)+j] = 5000.5 + float64(r*(d+1)+j)
			}
			copy(bvals[r*(d-k):], v[r*d+k:(r+1)*d])
		}
		wt, e := New(wide, wv, false)
		if e != nil {
			return nil, e
		}
		idx := make([]tensor.Range, rank)
		idx[rank-1] = tensor.Range{From: 0, To: k}
		a, e := wt.Slice(idx)
		if e != nil {
			return nil, e
		}
		b, e := New(sb, bvals, false)
		if e != nil {
			return nil, e
		}
		x, err = tensor.Concat([]tensor.Tensor{a, b}, rank-1)
		remember("the wider tensor whose slice was the first piece of the operand", wt, wide, wv)
		remember("the second piece the operand was concatenated from", b, sb, bvals)
	case via == 11 && rank >= 2 && allFiniteNonNegZero(v):
		real, e := New(shape, v, false)
		if e != nil {
			return nil, e
		}
		eye, e := tensor.Eye(shape[rank-1], Conf(false))
		if e != nil {
			return nil, e
		}
		x, err = real.MatMul(eye)
		remember("the tensor the operand was computed from", real, shape, v)
	case via == 13:
		spent, e := New(shape, v, true)
		if e != nil {
			return nil, e
		}
		if e := tensor.BackPropagate(spent.Scale(2)); e != nil {
			return nil, e
		}
		x = spent.Scale(1)
	case via == 12 && rank <= 5 && allFiniteNonNegZero(v):
		up := append([]int{1}, shape...)
		real, e := New(up, v, false)
		if e != nil {
			return nil, e
		}
		x, err = real.SumAlong(0)
		remember("the tensor the operand was reduced from", real, up, v)
	default:
		x, err = New(shape, v, false)
		if err == nil {
			warm(x)
		}
	}
	if err != nil {
		return nil, err
	}
	x.ResetGradContext(tracked)
	return x, nil
}
