// Package lib adapts between the flat reference representation and qeep's public API.
// It only uses the public packages of qeep.
package lib

import (
	"fmt"
	"math"

	"github.com/sahandsafizadeh/qeep/tensor"

	"qeepverif/ref"
)

func Conf(tracked bool) *tensor.Config {
	return &tensor.Config{Device: tensor.CPU, GradTrack: tracked}
}

// Nested builds the nested slice TensorOf accepts (rank 0..4) from flat row-major values.
func Nested(shape []int, v []float64) any {
	switch len(shape) {
	case 0:
		return v[0]
	case 1:
		return append([]float64{}, v...)
	case 2:
		o := make([][]float64, shape[0])
		n := shape[1]
		for i := range o {
			o[i] = append([]float64{}, v[i*n:(i+1)*n]...)
		}
		return o
	case 3:
		o := make([][][]float64, shape[0])
		n := shape[1] * shape[2]
		for i := range o {
			o[i] = Nested(shape[1:], v[i*n:(i+1)*n]).([][]float64)
		}
		return o
	case 4:
		o := make([][][][]float64, shape[0])
		n := shape[1] * shape[2] * shape[3]
		for i := range o {
			o[i] = Nested(shape[1:], v[i*n:(i+1)*n]).([][][]float64)
		}
		return o
	}
	panic("lib.Nested: rank > 4")
}

// TensorOfAny dispatches TensorOf over the five accepted data types.
func TensorOfAny(data any, conf *tensor.Config) (tensor.Tensor, error) {
	switch d := data.(type) {
	case float64:
		return tensor.TensorOf(d, conf)
	case []float64:
		return tensor.TensorOf(d, conf)
	case [][]float64:
		return tensor.TensorOf(d, conf)
	case [][][]float64:
		return tensor.TensorOf(d, conf)
	case [][][][]float64:
		return tensor.TensorOf(d, conf)
	}
	panic("lib.TensorOfAny: bad type")
}

// New builds a qeep tensor of the given shape and flat values. Ranks up to 4 use TensorOf
// directly; higher ranks use a flat TensorOf plus Reshape, then ResetGradContext to obtain a
// leaf with the requested tracking (C06 checks Reshape/At independently of this path).
func New(shape []int, v []float64, tracked bool) (tensor.Tensor, error) {
	if len(v) != ref.Prod(shape) {
		return nil, fmt.Errorf("lib.New: %d values for shape %v", len(v), shape)
	}
	if len(shape) <= 4 {
		return TensorOfAny(Nested(shape, v), Conf(tracked))
	}
	x, err := tensor.TensorOf(append([]float64{}, v...), Conf(false))
	if err != nil {
		return nil, err
	}
	x, err = x.Reshape(append([]int{}, shape...))
	if err != nil {
		return nil, err
	}
	x.ResetGradContext(tracked)
	return x, nil
}

func MustNew(shape []int, v []float64, tracked bool) tensor.Tensor {
	x, err := New(shape, v, tracked)
	if err != nil {
		panic(fmt.Sprintf("lib.MustNew(%v): %v", shape, err))
	}
	return x
}

// Read returns shape and flat row-major values of a qeep tensor through Shape and At.
func Read(x tensor.Tensor) (shape []int, v []float64, err error) {
	shape = x.Shape()
	for _, d := range shape {
		if d <= 0 {
			return shape, nil, fmt.Errorf("non-positive dimension in shape %v", shape)
		}
	}
	n := ref.Prod(shape)
	v = make([]float64, n)
	idx := make([]int, len(shape))
	for i := 0; i < n; i++ {
		v[i], err = x.At(idx...)
		if err != nil {
			return shape, nil, fmt.Errorf("At(%v) on shape %v: %w", idx, shape, err)
		}
		for k := len(idx) - 1; k >= 0; k-- {
			idx[k]++
			if idx[k] < shape[k] {
				break
			}
			idx[k] = 0
		}
	}
	return shape, v, nil
}

// SameBits reports whether two floats are bit-identical, with any NaN equal to any NaN.
func SameBits(a, b float64) bool {
	if math.IsNaN(a) && math.IsNaN(b) {
		return true
	}
	return math.Float64bits(a) == math.Float64bits(b)
}

// SameNum is SameBits except that -0 equals +0.
func SameNum(a, b float64) bool {
	if math.IsNaN(a) && math.IsNaN(b) {
		return true
	}
	return a == b
}

type Snapshot struct {
	Shape []int
	V     []float64
	HasG  bool
	GS    []int
	GV    []float64
}

// Snap captures shape, elements and gradient of x (bit-exact comparisons use Equal).
func Snap(x tensor.Tensor) (s Snapshot, err error) {
	s.Shape, s.V, err = Read(x)
	if err != nil {
		return
	}
	if g := x.Gradient(); g != nil {
		s.HasG = true
		s.GS, s.GV, err = Read(g)
	}
	return
}

func (a Snapshot) Equal(b Snapshot) bool {
	if !ref.EqShape(a.Shape, b.Shape) || a.HasG != b.HasG || !ref.EqShape(a.GS, b.GS) {
		return false
	}
	for i := range a.V {
		if !SameBits(a.V[i], b.V[i]) {
			return false
		}
	}
	if len(a.GV) != len(b.GV) {
		return false
	}
	for i := range a.GV {
		if !SameBits(a.GV[i], b.GV[i]) {
			return false
		}
	}
	return true
}
