package prog

import (
	"math"

	"pgregory.net/rapid"

	"qeepverif/ref"
)

// GenCfg bounds the value-aware program generator.
type GenCfg struct {
	Ops      []string // operation pool
	MaxRank  int
	MaxDim   int
	MaxElems int
	KinkGap  float64 // selections closer than this are generated out
	MaxMag   float64 // results larger than this are replaced by a squashing op
}

func DefaultCfg(ops []string) GenCfg {
	return GenCfg{Ops: ops, MaxRank: 4, MaxDim: 3, MaxElems: 24, KinkGap: 1e-3, MaxMag: 1e3}
}

// Gen builds a program incrementally; the forward reference values of everything built so
// far are kept so that each new node is only proposed where it is valid and differentiable.
type Gen struct {
	T      *rapid.T
	Cfg    GenCfg
	P      Program
	Vals   []ref.T
	Subst  int // ops replaced because of a domain / kink / magnitude problem
	nleaf  int
	frozen bool
}

func NewGen(t *rapid.T, cfg GenCfg) *Gen { return &Gen{T: t, Cfg: cfg} }

// DrawShape draws a shape of rank 0..MaxRank with at most MaxElems elements.
func (g *Gen) DrawShape(minRank int) []int {
	// occasionally one long dimension (carries past small sizes, shape-keyed state)
	if minRank <= 2 && rapid.IntRange(0, 11).Draw(g.T, "longshape") == 0 {
		long := rapid.SampledFrom([]int{17, 31, 32, 33, 63, 64}).Draw(g.T, "long")
		if long > g.Cfg.MaxElems*2 {
			long = g.Cfg.MaxElems
		}
		switch rapid.IntRange(0, 2).Draw(g.T, "longform") {
		case 0:
			return []int{long}
		case 1:
			return []int{1, long}
		default:
			return []int{long, 1}
		}
	}
	rank := rapid.IntRange(minRank, g.Cfg.MaxRank).Draw(g.T, "rank")
	s := make([]int, rank)
	n := 1
	for i := range s {
		hi := g.Cfg.MaxDim
		for hi > 1 && n*hi > g.Cfg.MaxElems {
			hi--
		}
		s[i] = rapid.IntRange(1, hi).Draw(g.T, "dim")
		n *= s[i]
	}
	return s
}

// DrawVals draws n values on an index-jittered lattice: k/8 + jitter(i, leaf), k in [-lo, hi].
func DrawVals(t *rapid.T, n, leaf, lo, hi int) []float64 {
	v := make([]float64, n)
	for i := range v {
		k := rapid.IntRange(lo, hi).Draw(t, "v")
		v[i] = float64(k)/8 + 0.0137*float64(i%61+1) + 0.0071*float64(leaf%17+1)
	}
	return v
}

// AddLeaf adds a leaf (all leaves must be added before the first node).
func (g *Gen) AddLeaf(shape []int, tracked bool) int {
	if g.frozen {
		panic("prog.Gen: leaf after node")
	}
	v := DrawVals(g.T, ref.Prod(shape), g.nleaf, -24, 24)
	g.nleaf++
	g.P.Leaves = append(g.P.Leaves, Leaf{Shape: ref.Cp(shape), Vals: v, Tracked: tracked, Via: DrawVia(g.T)})
	g.Vals = append(g.Vals, ref.FromVals(shape, v))
	return len(g.Vals) - 1
}

func (g *Gen) push(n Node, r ref.T) int {
	g.frozen = true
	g.P.Nodes = append(g.P.Nodes, n)
	g.Vals = append(g.Vals, r)
	return len(g.Vals) - 1
}

func minAbs(t ref.T) float64 {
	m := math.Inf(1)
	for _, e := range t.E {
		if a := math.Abs(e.V); a < m {
			m = a
		}
	}
	return m
}
func maxAbs(t ref.T) float64 {
	m := 0.0
	for _, e := range t.E {
		a := math.Abs(e.V)
		if a > m || math.IsNaN(a) {
			m = a
		}
	}
	return m
}
func minVal(t ref.T) float64 {
	m := math.Inf(1)
	for _, e := range t.E {
		if e.V < m {
			m = e.V
		}
	}
	return m
}

// try evaluates n on the current values; ok is false when the call is invalid, not
// differentiable with margin, or too large.
func (g *Gen) try(n Node) (ref.T, bool) {
	in := make([]ref.T, len(n.In))
	for k, o := range n.In {
		in[k] = g.Vals[o]
	}
	c := ref.NewCtx(0)
	r, err := ApplyRef(c, n, in)
	if err != nil {
		return r, false
	}
	if c.MinGap < g.Cfg.KinkGap || c.MinStd < 0.05 {
		return r, false
	}
	if len(r.E) > g.Cfg.MaxElems*2 {
		return r, false
	}
	m := maxAbs(r)
	if math.IsNaN(m) || m > g.Cfg.MaxMag {
		return r, false
	}
	return r, true
}

// sameShape lists the ids in pool whose shape equals that of a.
func (g *Gen) sameShape(pool []int, a int) []int {
	var o []int
	for _, j := range pool {
		if ref.EqShape(g.Vals[j].Shape, g.Vals[a].Shape) {
			o = append(o, j)
		}
	}
	return o
}

// pick draws an operand from pool, biased towards the most recent entries (interior nodes).
func (g *Gen) pick(pool []int, label string) int {
	if len(pool) > 2 && rapid.IntRange(0, 3).Draw(g.T, label+"recent") > 0 {
		lo := len(pool) - 3
		if lo < 0 {
			lo = 0
		}
		return pool[rapid.IntRange(lo, len(pool)-1).Draw(g.T, label)]
	}
	return pool[rapid.IntRange(0, len(pool)-1).Draw(g.T, label)]
}

func (g *Gen) pickOther(cands []int, a int, label string) int {
	// prefer a different node than a when there is one
	var others []int
	for _, j := range cands {
		if j != a {
			others = append(others, j)
		}
	}
	if len(others) > 0 && rapid.IntRange(0, 3).Draw(g.T, label+"other") > 0 {
		return g.pick(others, label)
	}
	return g.pick(cands, label)
}

var powExpAny = []float64{0, 1, 2, 3}
var powExpNonZero = []float64{-2, -1, 0, 1, 2, 3}
var powExpPos = []float64{-2, -1, -0.5, 0, 0.5, 1, 1.5, 2, 3}

// DrawIndex draws a valid Slice index for dims, mixing explicit, omitted, {0,0} and
// shorter-than-rank ranges.
func DrawIndex(t *rapid.T, dims []int) []ref.Range {
	n := rapid.IntRange(0, len(dims)).Draw(t, "idxlen")
	idx := make([]ref.Range, n)
	for i := 0; i < n; i++ {
		if rapid.IntRange(0, 3).Draw(t, "whole") == 0 {
			continue // {0,0}
		}
		from := rapid.IntRange(0, dims[i]-1).Draw(t, "from")
		to := rapid.IntRange(from+1, dims[i]).Draw(t, "to")
		idx[i] = ref.Range{From: from, To: to}
	}
	if n == 0 && rapid.Bool().Draw(t, "nilidx") {
		return nil
	}
	return idx
}

// DrawPatchIndex draws a valid Patch index placing a source of shape src inside dst.
func DrawPatchIndex(t *rapid.T, src, dst []int) []ref.Range {
	n := rapid.IntRange(0, len(dst)).Draw(t, "pidxlen")
	idx := make([]ref.Range, n)
	for i := 0; i < n; i++ {
		if rapid.IntRange(0, 3).Draw(t, "pwhole") == 0 {
			continue // {0,0}: offset 0
		}
		from := rapid.IntRange(0, dst[i]-src[i]).Draw(t, "pfrom")
		idx[i] = ref.Range{From: from, To: from + src[i]}
	}
	if n == 0 && rapid.Bool().Draw(t, "nilpidx") {
		return nil
	}
	return idx
}

// DrawFactorization draws a shape with exactly n elements and rank <= maxRank (factors of 1
// and the empty shape for n == 1 included).
func DrawFactorization(t *rapid.T, n, maxRank int) []int {
	s := []int{}
	rem := n
	for len(s) < maxRank-1 && rapid.IntRange(0, 3).Draw(t, "split") > 0 {
		var divs []int
		for d := 1; d <= rem; d++ {
			if rem%d == 0 {
				divs = append(divs, d)
			}
		}
		d := rapid.SampledFrom(divs).Draw(t, "div")
		s = append(s, d)
		rem /= d
	}
	if rem > 1 || rapid.Bool().Draw(t, "tail") {
		s = append(s, rem)
	}
	return s
}

// AddNode adds one node whose operands come from pool (ids of existing values). The op is
// drawn from the configured pool; when it cannot be applied validly and differentiably to the
// drawn operands it is replaced by a smooth, total op (counted in Subst). It returns the new
// value's id.
func (g *Gen) AddNode(pool []int) int {
	t := g.T
	op := rapid.SampledFrom(g.Cfg.Ops).Draw(t, "op")
	a := g.pick(pool, "a")
	va := g.Vals[a]
	rank := va.Rank()
	n := Node{Op: op, In: []int{a}}
	ok := true
	switch {
	case op == "scale":
		n.F = rapid.SampledFrom([]float64{-2, -1, -0.5, 0, 0.25, 0.5, 1, 1.5, 2, 3}).Draw(t, "f")
	case op == "pow":
		switch {
		case minVal(va) > 0.2:
			n.F = rapid.SampledFrom(powExpPos).Draw(t, "p")
		case minAbs(va) > 0.2:
			n.F = rapid.SampledFrom(powExpNonZero).Draw(t, "p")
		default:
			n.F = rapid.SampledFrom(powExpAny).Draw(t, "p")
		}
	case op == "log":
		ok = minVal(va) > 0.2
	case op == "exp" || op == "sinh" || op == "cosh":
		ok = maxAbs(va) <= 4
	case op == "tan":
		for _, e := range va.E {
			if math.Abs(math.Cos(e.V)) < 0.2 {
				ok = false
			}
		}
	case IsUnary(op):
	case isIn(op, Arith) || isIn(op, ElSel) || op == "dot":
		cands := g.sameShape(pool, a)
		b := g.pickOther(cands, a, "b")
		n.In = []int{a, b}
		if op == "div" {
			ok = minAbs(g.Vals[b]) > 0.2
		}
		if op == "dot" {
			ok = rank >= 1
		}
	case op == "matmul":
		ok = rank >= 2
		if ok {
			// direct candidates [..., k, p] with the same batch shape
			var direct []int
			for _, j := range pool {
				vj := g.Vals[j]
				if vj.Rank() == rank && ref.EqShape(vj.Shape[:rank-2], va.Shape[:rank-2]) && vj.Shape[rank-2] == va.Shape[rank-1] {
					direct = append(direct, j)
				}
			}
			if len(direct) > 0 && rapid.Bool().Draw(t, "direct") {
				n.In = []int{a, g.pick(direct, "b")}
			} else {
				// a . b^T with b of a's shape always fits
				b := g.pickOther(g.sameShape(pool, a), a, "b")
				tn := Node{Op: "transpose", In: []int{b}}
				tr, tok := g.try(tn)
				if !tok {
					ok = false
				} else {
					bt := g.push(tn, tr)
					pool = append(pool, bt)
					n.In = []int{a, bt}
				}
			}
		}
	case IsAlong(op):
		ok = rank >= 1
		if ok {
			n.I = rapid.IntRange(0, rank-1).Draw(t, "dim")
		}
	case op == "transpose":
		ok = rank >= 2
	case op == "reshape":
		n.S = DrawFactorization(t, len(va.E), 6)
	case op == "unsqueeze":
		ok = rank < 6
		if ok {
			n.I = rapid.IntRange(0, rank).Draw(t, "dim")
		}
	case op == "squeeze":
		var ones []int
		for i, d := range va.Shape {
			if d == 1 {
				ones = append(ones, i)
			}
		}
		ok = len(ones) > 0
		if ok {
			n.I = rapid.SampledFrom(ones).Draw(t, "dim")
		}
	case op == "flatten":
		ok = rank >= 1
		if ok {
			n.I = rapid.IntRange(0, rank-1).Draw(t, "dim")
		}
	case op == "slice":
		n.R = DrawIndex(t, va.Shape)
	case op == "patch":
		// source: an existing value that fits, or a slice of a value of a's shape
		var fits []int
		for _, j := range pool {
			vj := g.Vals[j]
			if vj.Rank() != rank {
				continue
			}
			f := true
			for k := range vj.Shape {
				if vj.Shape[k] > va.Shape[k] {
					f = false
				}
			}
			if f {
				fits = append(fits, j)
			}
		}
		src := -1
		if rapid.Bool().Draw(t, "psrcExisting") {
			src = g.pickOther(fits, a, "psrc")
		} else {
			b := g.pickOther(g.sameShape(pool, a), a, "pb")
			sn := Node{Op: "slice", In: []int{b}, R: DrawIndex(t, g.Vals[b].Shape)}
			sr, sok := g.try(sn)
			if sok {
				src = g.push(sn, sr)
				pool = append(pool, src)
			} else {
				src = a
			}
		}
		n.In = []int{a, src}
		n.R = DrawPatchIndex(t, g.Vals[src].Shape, va.Shape)
	case op == "concat":
		ok = rank >= 1
		if ok {
			n.I = rapid.IntRange(0, rank-1).Draw(t, "dim")
			var cands []int
			for _, j := range pool {
				vj := g.Vals[j]
				if vj.Rank() != rank {
					continue
				}
				f := true
				for k := range vj.Shape {
					if k != n.I && vj.Shape[k] != va.Shape[k] {
						f = false
					}
				}
				if f {
					cands = append(cands, j)
				}
			}
			cnt := rapid.IntRange(2, 4).Draw(t, "nconcat")
			for len(n.In) < cnt {
				n.In = append(n.In, g.pick(cands, "cat"))
			}
		}
	default:
		panic("prog.Gen: op " + op)
	}
	if ok {
		if r, rok := g.try(n); rok {
			return g.push(n, r)
		}
	}
	// substitute a smooth total op on the same operand; tanh also bounds the magnitude
	g.Subst++
	for _, alt := range []Node{{Op: "sin", In: []int{a}}, {Op: "tanh", In: []int{a}}, {Op: "scale", In: []int{a}, F: 0.5}} {
		if r, rok := g.try(alt); rok {
			return g.push(alt, r)
		}
	}
	alt := Node{Op: "scale", In: []int{a}, F: 0}
	r, _ := g.try(alt)
	return g.push(alt, r)
}

// AddDiamond adds u = f(m), v = g(m), j = join(u, v) for an existing value m (preferably an
// interior node), i.e. a fan-out of m whose paths reconverge. It returns the id of the join.
func (g *Gen) AddDiamond(pool []int) int {
	t := g.T
	m := g.pick(pool, "dm")
	un := func(label string, x int) int {
		n := Node{Op: rapid.SampledFrom([]string{"scale", "sin", "tanh", "cos", "pow", "sinh"}).Draw(t, label), In: []int{x}}
		switch n.Op {
		case "scale":
			n.F = rapid.SampledFrom([]float64{-2, -0.5, 0.5, 1.5, 3}).Draw(t, label+"f")
		case "pow":
			n.F = rapid.SampledFrom([]float64{2, 3}).Draw(t, label+"p")
		case "sinh":
			if maxAbs(g.Vals[x]) > 4 {
				n.Op = "tanh"
			}
		}
		r, ok := g.try(n)
		if !ok {
			n = Node{Op: "tanh", In: []int{x}}
			r, _ = g.try(n)
		}
		return g.push(n, r)
	}
	u := un("du", m)
	if rapid.Bool().Draw(t, "dlong") {
		u = un("du2", u)
	}
	v := un("dv", m)
	j := Node{Op: rapid.SampledFrom([]string{"add", "sub", "mul", "div", "elmax", "elmin", "dot", "concat"}).Draw(t, "dj"), In: []int{u, v}}
	if (j.Op == "dot" || j.Op == "concat") && g.Vals[u].Rank() == 0 {
		j.Op = "mul"
	}
	if j.Op == "div" && minAbs(g.Vals[v]) <= 0.2 {
		j.Op = "sub"
	}
	r, ok := g.try(j)
	if !ok {
		j = Node{Op: "add", In: []int{u, v}}
		r, ok = g.try(j)
		if !ok {
			j = Node{Op: "elmin", In: []int{u, u}}
			r, _ = g.try(j)
		}
	}
	return g.push(j, r)
}
