package prog

import (
	"pgregory.net/rapid"

	"qeepverif/ref"
)

// AllOps is every tensor-valued operation a history may apply.
var AllOps = func() []string {
	var o []string
	o = append(o, Unary...)
	o = append(o, Arith...)
	o = append(o, ElSel...)
	o = append(o, Cmp...)
	o = append(o, Along...)
	o = append(o, ShapeOps...)
	o = append(o, IndexOps...)
	o = append(o, "dot", "matmul", "broadcast")
	return o
}()

// HistShapes is the small set of leaf shapes histories use, chosen so that binary, matrix and
// concatenation operations regularly find compatible partners.
var HistShapes = [][]int{{}, {2}, {3}, {1, 3}, {2, 2}, {2, 3}, {3, 2}, {2, 1, 2}}

// DrawOp draws an operation applicable to the tensors with the given shapes. elig lists the
// pool ids that may be used as operands. ok is false when the drawn op has no valid operand
// combination (the caller then falls back to a unary op).
func DrawOp(t *rapid.T, shapes [][]int, elig []int, ops []string) (n Node, ok bool) {
	op := rapid.SampledFrom(ops).Draw(t, "op")
	a := elig[rapid.IntRange(0, len(elig)-1).Draw(t, "a")]
	if len(elig) > 3 && rapid.Bool().Draw(t, "recent") {
		a = elig[rapid.IntRange(len(elig)-3, len(elig)-1).Draw(t, "arecent")]
	}
	sa := shapes[a]
	rank := len(sa)
	n = Node{Op: op, In: []int{a}}
	filter := func(pred func(s []int) bool) []int {
		var o []int
		for _, j := range elig {
			if pred(shapes[j]) {
				o = append(o, j)
			}
		}
		return o
	}
	pick := func(c []int, label string) int { return c[rapid.IntRange(0, len(c)-1).Draw(t, label)] }
	switch {
	case op == "scale":
		n.F = rapid.SampledFrom([]float64{-1, 0, 0.5, 1, 2}).Draw(t, "f")
	case op == "pow":
		n.F = rapid.SampledFrom([]float64{0, 1, 2, 3}).Draw(t, "p")
	case IsUnary(op):
	case isIn(op, Arith):
		c := filter(func(s []int) bool { _, err := ref.BroadcastShape(sa, s); return err == nil })
		n.In = []int{a, pick(c, "b")}
	case isIn(op, ElSel) || IsCmp(op):
		c := filter(func(s []int) bool { return ref.EqShape(sa, s) })
		n.In = []int{a, pick(c, "b")}
	case op == "dot":
		if rank < 1 {
			return n, false
		}
		c := filter(func(s []int) bool {
			if len(s) < 1 || s[len(s)-1] != sa[rank-1] {
				return false
			}
			_, err := ref.BroadcastShape(sa[:rank-1], s[:len(s)-1])
			return err == nil
		})
		n.In = []int{a, pick(c, "b")}
	case op == "matmul":
		if rank < 2 {
			return n, false
		}
		c := filter(func(s []int) bool {
			if len(s) < 2 || s[len(s)-2] != sa[rank-1] {
				return false
			}
			_, err := ref.BroadcastShape(sa[:rank-2], s[:len(s)-2])
			return err == nil
		})
		if len(c) == 0 {
			return n, false
		}
		n.In = []int{a, pick(c, "b")}
	case IsAlong(op):
		if rank < 1 {
			return n, false
		}
		n.I = rapid.IntRange(0, rank-1).Draw(t, "dim")
	case op == "transpose":
		if rank < 2 {
			return n, false
		}
	case op == "reshape":
		n.S = DrawFactorization(t, ref.Prod(sa), 4)
	case op == "unsqueeze":
		if rank >= 5 {
			return n, false
		}
		n.I = rapid.IntRange(0, rank).Draw(t, "dim")
	case op == "squeeze":
		var ones []int
		for i, d := range sa {
			if d == 1 {
				ones = append(ones, i)
			}
		}
		if len(ones) == 0 {
			return n, false
		}
		n.I = pick(ones, "dim")
	case op == "flatten":
		if rank < 1 {
			return n, false
		}
		n.I = rapid.IntRange(0, rank-1).Draw(t, "dim")
	case op == "broadcast":
		if ref.Prod(sa) > 8 || rank >= 4 {
			return n, false
		}
		s := ref.Cp(sa)
		for i := range s {
			if s[i] == 1 && rapid.Bool().Draw(t, "expand1") {
				s[i] = 2
			}
		}
		if rapid.Bool().Draw(t, "lead") {
			s = append([]int{2}, s...)
		}
		n.S = s
	case op == "slice":
		n.R = DrawIndex(t, sa)
	case op == "patch":
		c := filter(func(s []int) bool {
			if len(s) != rank {
				return false
			}
			for k := range s {
				if s[k] > sa[k] {
					return false
				}
			}
			return true
		})
		src := pick(c, "src")
		n.In = []int{a, src}
		n.R = DrawPatchIndex(t, shapes[src], sa)
	case op == "concat":
		if rank < 1 {
			return n, false
		}
		n.I = rapid.IntRange(0, rank-1).Draw(t, "dim")
		c := filter(func(s []int) bool {
			if len(s) != rank {
				return false
			}
			for k := range s {
				if k != n.I && s[k] != sa[k] {
					return false
				}
			}
			return true
		})
		cnt := rapid.IntRange(2, 3).Draw(t, "nconcat")
		for len(n.In) < cnt {
			n.In = append(n.In, pick(c, "cat"))
		}
	default:
		panic("DrawOp: " + op)
	}
	return n, true
}

// ResultShape computes the shape the operation is defined to return, or an error when the
// call violates its precondition.
func ResultShape(n Node, shapes [][]int) ([]int, error) {
	in := make([]ref.T, len(n.In))
	for k, o := range n.In {
		in[k] = ref.FromVals(shapes[o], make([]float64, ref.Prod(shapes[o])))
	}
	r, err := ApplyRef(nil, n, in)
	if err != nil {
		return nil, err
	}
	return r.Shape, nil
}
