// Package prog defines programs over tensors (lists of operation nodes over a pool of
// leaves) as plain JSON-serialisable data, with two executors: one against the reference
// model and one against qeep's public API.
package prog

import (
	"fmt"

	"github.com/sahandsafizadeh/qeep/tensor"

	"qeepverif/lib"
	"qeepverif/ref"
)

type Leaf struct {
	Shape   []int     `json:"shape"`
	Vals    F64s      `json:"vals"`
	Tracked bool      `json:"tracked"`
	Via     int       `json:"via,omitempty"` // provenance of the library tensor (lib.NewVia)
	// Pre (tracked leaves only): the operand handed to the program is not the leaf itself but the
	// result of an identity derivation kept in the graph (Identity); gradients must then reach
	// both the derived operand and the leaf behind it
	Pre int `json:"pre,omitempty"`
}

// NPre is the number of identity derivations of Identity (Pre in 1..NPre-1).
const NPre = 12

// Identity returns a tensor with x's shape and values computed from x by tracked operations
// whose Jacobian is the identity; derivations that do not apply to the shape fall back to 1.
func Identity(x tensor.Tensor, k int) (tensor.Tensor, error) {
	shape := x.Shape()
	rank := len(shape)
	conf := lib.Conf(false)
	switch {
	case k == 2:
		return x.Reshape(append([]int{}, shape...))
	case k == 3:
		return x.Broadcast(append([]int{}, shape...))
	case k == 4:
		return x.Slice(nil)
	case k == 5 && rank < 6:
		y, err := x.UnSqueeze(0)
		if err != nil {
			return nil, err
		}
		return y.Squeeze(0)
	case k == 6:
		ones, err := tensor.Ones(append([]int{}, shape...), conf)
		if err != nil {
			return nil, err
		}
		return x.Mul(ones)
	case k == 7:
		zeros, err := tensor.Zeros(append([]int{}, shape...), conf)
		if err != nil {
			return nil, err
		}
		return zeros.Patch(nil, x)
	case k == 8 && rank >= 1:
		y, err := x.Flatten(0)
		if err != nil {
			return nil, err
		}
		return y.Reshape(append([]int{}, shape...))
	case k == 9 && rank >= 2:
		y, err := x.Transpose()
		if err != nil {
			return nil, err
		}
		return y.Transpose()
	case k == 10:
		zero, err := tensor.Zeros(nil, conf)
		if err != nil {
			return nil, err
		}
		return x.Add(zero)
	case k == 11:
		y, err := x.Broadcast(append([]int{}, shape...))
		if err != nil {
			return nil, err
		}
		return y.Broadcast(append([]int{}, shape...))
	}
	return x.Scale(1), nil
}

// Node is one operation. In holds operand ids: ids < len(leaves) are leaves, the rest nodes.
type Node struct {
	Op string      `json:"op"`
	In []int       `json:"in"`
	I  int         `json:"i,omitempty"` // dim argument
	F  float64     `json:"f,omitempty"` // scalar argument
	S  []int       `json:"s,omitempty"` // shape argument
	R  []ref.Range `json:"r,omitempty"` // index argument
	// Twice: the library call is made twice with the same arguments; the second result is used
	Twice bool `json:"twice,omitempty"`
	// RNil distinguishes a nil index from an empty one (both mean "whole tensor").
}

type Program struct {
	Leaves []Leaf `json:"leaves"`
	Nodes  []Node `json:"nodes"`
	// Disturb: after the program ran (and, in gradient checks, after back-propagation), the
	// same program is run once more on other values of the same shapes before the results of
	// the first run are read - results must not live in storage that later calls reuse
	Disturb bool `json:"disturb,omitempty"`
	// UseResult: the result is itself used as an operand of further calls (reshaping, reducing,
	// arithmetic; their results are dropped) before results and operands are read back
	UseResult bool `json:"use_result,omitempty"`
	// RejectFirst: before each node's call, a call of the same operation on the same operand
	// objects with an invalid argument (a dim beyond the rank, an element count that does not
	// fit, a partner of an incompatible shape, a reversed range) is made; it must not disturb
	// the valid call that follows (whether it is rejected is C09's subject, not checked here)
	RejectFirst bool `json:"reject_first,omitempty"`
	// NoOpBP: before the nodes are built, BackPropagate is called on every untracked leaf (from an
	// untracked root it changes nothing) and Gradient() of every leaf is read
	NoOpBP bool `json:"noop_bp,omitempty"`
}

// InvalidCall makes calls of n's operation that violate the operation's precondition - with
// the checked call's own operand objects in them - and drops whatever they return.
func InvalidCall(n Node, in []tensor.Tensor) {
	defer func() { _ = recover() }()
	a := in[0]
	sa := a.Shape()
	rank := len(sa)
	junkLike := func(shape []int) tensor.Tensor {
		j, err := lib.New(shape, make([]float64, ref.Prod(shape)), false)
		if err != nil {
			return nil
		}
		return j
	}
	bad := n
	switch {
	case IsAlong(n.Op) || n.Op == "squeeze" || n.Op == "unsqueeze" || n.Op == "flatten":
		bad.I = rank + 2
		if n.I%2 == 1 {
			bad.I = -1
		}
	case n.Op == "concat":
		bad.I = rank + 1
		_, _ = ApplyLib(bad, in, nil)
		if rank >= 2 && n.I >= 0 && n.I < rank {
			// a partner that differs along the concat dimension AND along another one, listed first
			js := append([]int{}, sa...)
			js[n.I]++
			js[(n.I+1)%rank] += 2
			if j := junkLike(js); j != nil {
				_, _ = ApplyLib(n, append([]tensor.Tensor{j}, in...), nil)
			}
		}
		return
	case n.Op == "reshape":
		bad.S = []int{a.NElems() + 1}
	case n.Op == "broadcast":
		bad.S = append(append([]int{}, sa...), 3)
		if rank > 0 {
			bad.S = append([]int{}, sa...)
			bad.S[rank-1] += 2
		}
	case n.Op == "slice" || n.Op == "patch":
		bad.R = []ref.Range{{From: 5, To: 2}}
		if rank == 0 {
			bad.R = []ref.Range{{From: 0, To: 1}}
		}
	case len(in) == 2:
		// partners that fit nothing; partners into which the operand could be expanded but which
		// cannot be expanded themselves (one of the operand's dims >= 3 replaced by 2); each with
		// the checked operands in either role
		var junks []tensor.Tensor
		if j := junkLike([]int{2, 97, 3}); j != nil {
			junks = append(junks, j)
		}
		for _, x := range in {
			sx := x.Shape()
			for k, d := range sx {
				if d >= 3 {
					js := append([]int{}, sx...)
					js[k] = 2
					if j := junkLike(js); j != nil {
						junks = append(junks, j)
					}
					break
				}
			}
			if len(sx) >= 3 {
				// same rank, a batch dimension that is neither 1 nor the operand's
				js := append([]int{}, sx...)
				js[0] = sx[0] + 1
				if j := junkLike(js); j != nil {
					junks = append(junks, j)
				}
			}
		}
		for _, j := range junks {
			_, _ = ApplyLib(n, []tensor.Tensor{a, j}, nil)
			_, _ = ApplyLib(n, []tensor.Tensor{j, in[1]}, nil)
			_, _ = ApplyLib(n, []tensor.Tensor{in[1], j}, nil)
			_, _ = ApplyLib(n, []tensor.Tensor{j, a}, nil)
		}
		_, _ = ApplyLib(n, []tensor.Tensor{a, nil}, nil)
		return
	case n.Op == "transpose":
		return
	default:
		return // unary element-wise operations accept every tensor
	}
	_, _ = ApplyLib(bad, in, nil)
}

// Disturbance runs p once more on junk values (and back-propagates its last value if bp).
func Disturbance(p Program, bp bool) {
	q := Program{Nodes: p.Nodes}
	for _, l := range p.Leaves {
		v := make([]float64, len(l.Vals))
		for i := range v {
			v[i] = 7000.25 + float64(i)
		}
		q.Leaves = append(q.Leaves, Leaf{Shape: l.Shape, Vals: v, Tracked: l.Tracked})
	}
	vals, err := RunLib(q)
	if err != nil || !bp {
		return
	}
	_ = tensor.BackPropagate(vals[len(vals)-1])
}

var Unary = []string{"scale", "pow", "exp", "log", "sin", "cos", "tan", "sinh", "cosh", "tanh"}
var Arith = []string{"add", "sub", "mul", "div"}
var ElSel = []string{"elmax", "elmin"}
var Cmp = []string{"eq", "ne", "gt", "ge", "lt", "le"}
var Along = []string{"sumalong", "maxalong", "minalong", "avgalong", "varalong", "stdalong", "meanalong"}
var ShapeOps = []string{"transpose", "reshape", "unsqueeze", "squeeze", "flatten"}
var IndexOps = []string{"slice", "patch", "concat"}

// Differentiable33 is the list of C02: every differentiable operation other than Broadcast.
var Differentiable33 = func() []string {
	var o []string
	o = append(o, "slice", "patch", "transpose", "reshape", "unsqueeze", "squeeze", "flatten")
	o = append(o, Along...)
	o = append(o, Unary...)
	o = append(o, ElSel...)
	o = append(o, Arith...)
	o = append(o, "dot", "matmul", "concat")
	return o
}()

func isIn(s string, l []string) bool {
	for _, x := range l {
		if x == s {
			return true
		}
	}
	return false
}
func IsUnary(op string) bool { return isIn(op, Unary) }
func IsCmp(op string) bool   { return isIn(op, Cmp) }
func IsAlong(op string) bool { return isIn(op, Along) }

// ApplyRef evaluates one node on reference operands. An error wrapping ref.ErrInvalid means
// the call violates the operation's documented precondition.
func ApplyRef(c *ref.Ctx, n Node, in []ref.T) (ref.T, error) {
	switch {
	case IsUnary(n.Op):
		return c.Unary(n.Op, in[0], n.F), nil
	case isIn(n.Op, Arith), IsCmp(n.Op):
		return c.Binary(n.Op, in[0], in[1])
	case isIn(n.Op, ElSel):
		if len(n.In) == 2 && n.In[0] == n.In[1] {
			// max(x, x) = x: not a kink
			return c.Map(in[0], func(d ref.D) ref.D { return d }), nil
		}
		return c.Binary(n.Op, in[0], in[1])
	case IsAlong(n.Op):
		return c.ReduceAlong(n.Op[:len(n.Op)-5], in[0], n.I)
	}
	switch n.Op {
	case "dot":
		return c.Dot(in[0], in[1])
	case "matmul":
		return c.MatMul(in[0], in[1])
	case "transpose":
		return c.Transpose(in[0])
	case "reshape":
		return c.Reshape(in[0], n.S)
	case "unsqueeze":
		return c.UnSqueeze(in[0], n.I)
	case "squeeze":
		return c.Squeeze(in[0], n.I)
	case "flatten":
		return c.Flatten(in[0], n.I)
	case "broadcast":
		return c.Broadcast(in[0], n.S)
	case "slice":
		return c.Slice(in[0], n.R)
	case "patch":
		return c.Patch(in[0], n.R, in[1])
	case "concat":
		return c.Concat(in, n.I)
	}
	panic("prog.ApplyRef: op " + n.Op)
}

// Passed collects the caller-owned slices handed to the library by ApplyLib, so that a
// history can mutate them afterwards (C10).
type Passed struct {
	Ints    [][]int
	Ranges  [][]tensor.Range
	Tensors [][]tensor.Tensor
}

func ToRanges(r []ref.Range) []tensor.Range {
	if r == nil {
		return nil
	}
	o := make([]tensor.Range, len(r))
	for i, x := range r {
		o[i] = tensor.Range{From: x.From, To: x.To}
	}
	return o
}

// ApplyLib performs one node through qeep's public API.
func ApplyLib(n Node, in []tensor.Tensor, p *Passed) (tensor.Tensor, error) {
	a := in[0]
	ints := func(s []int) []int {
		var o []int
		if s != nil {
			o = append([]int{}, s...)
		}
		if p != nil {
			h := len(s)
			for _, v := range s {
				h += v
			}
			if s != nil && h%2 == 0 {
				// the caller's slice is a prefix of a longer buffer: spare capacity holding garbage
				buf := []int{-7, -7, -7, -7, -7, -7, -7, -7, -7, -7, -7, -7}
				o = buf[:copy(buf, s):len(s)+4]
			}
			p.Ints = append(p.Ints, o)
		}
		return o
	}
	ranges := func(r []ref.Range) []tensor.Range {
		o := ToRanges(r)
		if p != nil {
			h := len(r)
			for _, v := range r {
				h += v.From + v.To
			}
			if r != nil && h%2 == 0 {
				// the caller's index is a prefix of a longer buffer (a reused index buffer)
				buf := make([]tensor.Range, len(r)+6)
				for i := range buf {
					buf[i] = tensor.Range{From: 5, To: 2}
				}
				o = buf[:copy(buf, o):len(r)+6]
			}
			p.Ranges = append(p.Ranges, o)
		}
		return o
	}
	switch n.Op {
	case "scale":
		return a.Scale(n.F), nil
	case "pow":
		return a.Pow(n.F), nil
	case "exp":
		return a.Exp(), nil
	case "log":
		return a.Log(), nil
	case "sin":
		return a.Sin(), nil
	case "cos":
		return a.Cos(), nil
	case "tan":
		return a.Tan(), nil
	case "sinh":
		return a.Sinh(), nil
	case "cosh":
		return a.Cosh(), nil
	case "tanh":
		return a.Tanh(), nil
	case "add":
		return a.Add(in[1])
	case "sub":
		return a.Sub(in[1])
	case "mul":
		return a.Mul(in[1])
	case "div":
		return a.Div(in[1])
	case "elmax":
		return a.ElMax(in[1])
	case "elmin":
		return a.ElMin(in[1])
	case "eq":
		return a.Eq(in[1])
	case "ne":
		return a.Ne(in[1])
	case "gt":
		return a.Gt(in[1])
	case "ge":
		return a.Ge(in[1])
	case "lt":
		return a.Lt(in[1])
	case "le":
		return a.Le(in[1])
	case "dot":
		return a.Dot(in[1])
	case "matmul":
		return a.MatMul(in[1])
	case "transpose":
		return a.Transpose()
	case "reshape":
		return a.Reshape(ints(n.S))
	case "unsqueeze":
		return a.UnSqueeze(n.I)
	case "squeeze":
		return a.Squeeze(n.I)
	case "flatten":
		return a.Flatten(n.I)
	case "broadcast":
		return a.Broadcast(ints(n.S))
	case "slice":
		return a.Slice(ranges(n.R))
	case "patch":
		return a.Patch(ranges(n.R), in[1])
	case "concat":
		ts := append([]tensor.Tensor{}, in...)
		if p != nil {
			if len(in)%2 == 0 {
				// the caller's list is a prefix of a longer buffer
				ts = append(make([]tensor.Tensor, 0, len(in)+4), in...)
			}
			p.Tensors = append(p.Tensors, ts)
		}
		return tensor.Concat(ts, n.I)
	case "sumalong":
		return a.SumAlong(n.I)
	case "maxalong":
		return a.MaxAlong(n.I)
	case "minalong":
		return a.MinAlong(n.I)
	case "avgalong":
		return a.AvgAlong(n.I)
	case "varalong":
		return a.VarAlong(n.I)
	case "stdalong":
		return a.StdAlong(n.I)
	case "meanalong":
		return a.MeanAlong(n.I)
	}
	panic("prog.ApplyLib: op " + n.Op)
}

// RunLib builds all leaves and nodes of p through the library.
func RunLib(p Program) ([]tensor.Tensor, error) {
	vals, _, err := RunLibBases(p)
	return vals, err
}

// RunLibBases is RunLib; bases[i] is the leaf tensor behind operand i where the operand is an
// identity derivation of it (Leaf.Pre), nil otherwise.
func RunLibBases(p Program) ([]tensor.Tensor, []tensor.Tensor, error) {
	return runLib(p, nil)
}

// RunLibReuse is RunLibBases, except that leaf i is the existing tensor reuse[i] where that is
// not nil (an untracked tensor built for an earlier run of the same program).
func RunLibReuse(p Program, reuse []tensor.Tensor) ([]tensor.Tensor, []tensor.Tensor, error) {
	return runLib(p, reuse)
}

func runLib(p Program, reuse []tensor.Tensor) ([]tensor.Tensor, []tensor.Tensor, error) {
	vals := make([]tensor.Tensor, 0, len(p.Leaves)+len(p.Nodes))
	bases := make([]tensor.Tensor, len(p.Leaves))
	for i, l := range p.Leaves {
		if i < len(reuse) && reuse[i] != nil {
			vals = append(vals, reuse[i])
			continue
		}
		x, err := lib.NewVia(l.Shape, l.Vals, l.Tracked, l.Via)
		if err != nil {
			return nil, nil, fmt.Errorf("leaf %d: %w", i, err)
		}
		if l.Tracked && l.Pre > 0 {
			bases[i] = x
			x, err = Identity(x, l.Pre)
			if err != nil {
				return nil, nil, fmt.Errorf("leaf %d: identity derivation %d: %w", i, l.Pre, err)
			}
		}
		vals = append(vals, x)
	}
	if p.NoOpBP {
		for i, l := range p.Leaves {
			if !l.Tracked {
				if err := tensor.BackPropagate(vals[i]); err != nil {
					return nil, nil, fmt.Errorf("BackPropagate from untracked leaf %d returned an error: %w", i, err)
				}
			}
			_ = vals[i].Gradient()
		}
	}
	for i, n := range p.Nodes {
		in := make([]tensor.Tensor, len(n.In))
		for k, o := range n.In {
			in[k] = vals[o]
		}
		if p.RejectFirst {
			InvalidCall(n, in)
		}
		var first tensor.Tensor
		if n.Twice {
			// the same call was made once before
			var err error
			if first, err = ApplyLib(n, in, nil); err != nil {
				return nil, nil, fmt.Errorf("node %d (%s), first of two calls: %w", i, n.Op, err)
			}
		}
		y, err := ApplyLib(n, in, nil)
		if err != nil {
			return nil, nil, fmt.Errorf("node %d (%s): %w", i, n.Op, err)
		}
		if y == nil {
			return nil, nil, fmt.Errorf("node %d (%s): nil result without error", i, n.Op)
		}
		if first != nil {
			// the first result is still what it was, and equal to the second
			if err := sameResult(first, y); err != nil {
				return nil, nil, fmt.Errorf("node %d (%s): the same call made twice on the same operands: %w", i, n.Op, err)
			}
		}
		vals = append(vals, y)
	}
	return vals, bases, nil
}

func sameResult(a, b tensor.Tensor) error {
	as, av, err := lib.Read(a)
	if err != nil {
		return fmt.Errorf("first result unreadable: %w", err)
	}
	bs, bv, err := lib.Read(b)
	if err != nil {
		return fmt.Errorf("second result unreadable: %w", err)
	}
	if !ref.EqShape(as, bs) {
		return fmt.Errorf("results have shapes %v and %v", as, bs)
	}
	for i := range av {
		if !lib.SameBits(av[i], bv[i]) {
			return fmt.Errorf("results differ at %v: %v vs %v", ref.Unravel(i, as), av[i], bv[i])
		}
	}
	return nil
}

// Tracked computes the model's tracked flag of every value (no spent tensors involved):
// a result is tracked iff some operand is; comparisons are never tracked.
func (p Program) Tracked() []bool {
	nl := len(p.Leaves)
	tr := make([]bool, nl+len(p.Nodes))
	for i, l := range p.Leaves {
		tr[i] = l.Tracked
	}
	for i, n := range p.Nodes {
		if IsCmp(n.Op) {
			continue
		}
		for _, o := range n.In {
			if tr[o] {
				tr[nl+i] = true
			}
		}
	}
	return tr
}

// Reach returns the set of tracked values that a back-propagation from root passes through:
// root (if tracked) and every tracked operand reachable through tracked values.
func (p Program) Reach(root int, tracked []bool) []bool {
	nl := len(p.Leaves)
	reach := make([]bool, len(tracked))
	if !tracked[root] {
		return reach
	}
	stack := []int{root}
	reach[root] = true
	for len(stack) > 0 {
		x := stack[len(stack)-1]
		stack = stack[:len(stack)-1]
		if x < nl {
			continue
		}
		for _, o := range p.Nodes[x-nl].In {
			if tracked[o] && !reach[o] {
				reach[o] = true
				stack = append(stack, o)
			}
		}
	}
	return reach
}

// RunRef evaluates p on the reference with one block of tangent slots per value in seed
// (seed[i] true => value i is perturbed element-wise). It returns the values, the first slot
// of each seeded value (-1 otherwise) and the context.
func RunRef(p Program, seed []bool, bcastAvg bool) ([]ref.T, []int, *ref.Ctx, error) {
	nl := len(p.Leaves)
	total := nl + len(p.Nodes)
	// first pass for shapes (forward only)
	shapes := make([][]int, total)
	{
		vals := make([]ref.T, 0, total)
		for _, l := range p.Leaves {
			vals = append(vals, ref.FromVals(l.Shape, l.Vals))
		}
		for i, n := range p.Nodes {
			in := make([]ref.T, len(n.In))
			for k, o := range n.In {
				in[k] = vals[o]
			}
			r, err := ApplyRef(nil, n, in)
			if err != nil {
				return nil, nil, nil, fmt.Errorf("ref node %d (%s): %w", i, n.Op, err)
			}
			vals = append(vals, r)
		}
		for i, v := range vals {
			shapes[i] = v.Shape
		}
	}
	slot := make([]int, total)
	ns := 0
	for i := 0; i < total; i++ {
		slot[i] = -1
		if seed != nil && seed[i] {
			slot[i] = ns
			ns += ref.Prod(shapes[i])
		}
	}
	c := ref.NewCtx(ns)
	c.BcastAvg = bcastAvg
	vals := make([]ref.T, 0, total)
	for i, l := range p.Leaves {
		v := ref.FromVals(l.Shape, l.Vals)
		if slot[i] >= 0 {
			v = c.SeedBlock(v, slot[i])
		}
		vals = append(vals, v)
	}
	for i, n := range p.Nodes {
		in := make([]ref.T, len(n.In))
		for k, o := range n.In {
			in[k] = vals[o]
		}
		r, err := ApplyRef(c, n, in)
		if err != nil {
			return nil, nil, nil, fmt.Errorf("ref node %d (%s): %w", i, n.Op, err)
		}
		if slot[nl+i] >= 0 {
			r = c.SeedBlock(r, slot[nl+i])
		}
		vals = append(vals, r)
	}
	return vals, slot, c, nil
}

// Adjoint extracts d(sum_e w[e]*root[e])/d(value with first slot s and n elements) from the
// root's tangents, plus the conditioning scale of each entry. w == nil means all ones.
func Adjoint(root ref.T, w []float64, s, n int) (g, scale []float64) {
	g = make([]float64, n)
	scale = make([]float64, n)
	for e, re := range root.E {
		if re.T == nil {
			continue
		}
		we := 1.0
		if w != nil {
			we = w[e]
		}
		if we == 0 {
			continue
		}
		awe := we
		if awe < 0 {
			awe = -awe
		}
		for k := 0; k < n; k++ {
			if t := re.T[s+k]; t != 0 {
				g[k] += we * t
			}
			scale[k] += awe * re.A[s+k]
		}
	}
	return
}
