package prog

import (
	"math"

	"pgregory.net/rapid"

	"qeepverif/lib"
	"qeepverif/ref"
)

// SingleCfg bounds the single-operation generator used by the per-operation checks.
type SingleCfg struct {
	MaxRank  int
	MaxDim   int
	MaxElems int
	Expand   bool // binary operands may need implicit expansion (broadcast-compatible pairs)
	Wild     bool // forward-only value regime: zeros, ties, extreme magnitudes
	Distinct bool // prefer pairwise different dimension sizes (reductions)
	Bits     bool // arbitrary payloads: NaN, +-Inf, -0, denormals (value-parametric operations)
	Mags     bool // finite values of very different magnitudes (1e-250..1e120), products stay finite
}

// DrawShapeN draws a shape of rank minRank..maxRank with dims 1..maxDim and <= maxElems elements.
func DrawShapeN(t *rapid.T, minRank, maxRank, maxDim, maxElems int, distinct bool) []int {
	// a tenth of the shapes may have long dimensions (up to 40) and up to 4x the elements:
	// carries past small sizes, thresholds of size-dependent code paths
	if maxElems >= 100 && rapid.IntRange(0, 9).Draw(t, "bigshape") == 0 {
		maxDim = 70
		if maxElems >= 250 {
			maxElems *= 4
		}
		if maxRank > 3 {
			maxRank = 3
		}
		if minRank > maxRank {
			maxRank = minRank
		}
	}
	rank := rapid.IntRange(minRank, maxRank).Draw(t, "rank")
	s := make([]int, rank)
	n := 1
	used := map[int]bool{}
	for i := range s {
		hi := maxDim
		for hi > 1 && n*hi > maxElems {
			hi--
		}
		d := rapid.IntRange(1, hi).Draw(t, "dim")
		if distinct && used[d] {
			// try the next unused size that still fits
			for k := 1; k <= hi; k++ {
				c := (d+k-1)%hi + 1
				if !used[c] {
					d = c
					break
				}
			}
		}
		used[d] = true
		s[i] = d
		n *= d
	}
	return s
}

// DrawBroadcastPair draws two shapes whose NumPy broadcast is exactly target: one operand may
// drop leading dims, and along every dim both cover at most one of them collapses to 1.
func DrawBroadcastPair(t *rapid.T, target []int) (a, b []int) {
	r := len(target)
	dropA, dropB := 0, 0
	switch rapid.IntRange(0, 3).Draw(t, "dropwho") {
	case 0:
		dropA = rapid.IntRange(0, r).Draw(t, "drop")
	case 1:
		dropB = rapid.IntRange(0, r).Draw(t, "drop")
	}
	a, b = ref.Cp(target[dropA:]), ref.Cp(target[dropB:])
	lo := dropA
	if dropB > lo {
		lo = dropB
	}
	for j := lo; j < r; j++ {
		switch rapid.IntRange(0, 4).Draw(t, "collapse") {
		case 0:
			a[j-dropA] = 1
		case 1:
			b[j-dropB] = 1
		}
	}
	return a, b
}

// DrawBroadcastSrc draws a source shape that Broadcast can expand to target: leading dims
// dropped, any remaining dim collapsed to 1 (possibly none: expansion factor 1).
func DrawBroadcastSrc(t *rapid.T, target []int) []int {
	drop := 0
	if rapid.Bool().Draw(t, "dropany") {
		drop = rapid.IntRange(0, len(target)).Draw(t, "drop")
	}
	s := ref.Cp(target[drop:])
	for i := range s {
		if rapid.IntRange(0, 2).Draw(t, "collapse") == 0 {
			s[i] = 1
		}
	}
	return s
}

var specialBits = []float64{0, math.Copysign(0, -1), math.NaN(), math.Inf(1), math.Inf(-1), 5e-324, -5e-324, math.MaxFloat64, -math.MaxFloat64, 1, -1}

var wildMags = []float64{0, 1e-300, 1e-150, 1e-30, 1e-8, 1, 3, 1e8, 1e30, 1e150, 1e300}

// DrawValsMode draws n values in a regime:
//   std      lattice in about [-3, 3]
//   pos      values > 0.25
//   nonzero  |values| > 0.25
//   small    |values| <= 1.1
//   zeros    lattice with exact zeros mixed in
//   wild     zeros, negatives, lattice values and magnitudes 1e-300..1e300
func DrawValsMode(t *rapid.T, n, leaf int, mode string) []float64 {
	v := make([]float64, n)
	for i := range v {
		j := 0.0137*float64(i%61+1) + 0.0071*float64(leaf%17+1)
		switch mode {
		case "std":
			v[i] = float64(rapid.IntRange(-24, 24).Draw(t, "v"))/8 + j
		case "pos":
			v[i] = float64(rapid.IntRange(2, 24).Draw(t, "v"))/8 + j
		case "nonzero":
			k := rapid.IntRange(2, 24).Draw(t, "v")
			v[i] = float64(k)/8 + j
			if rapid.Bool().Draw(t, "neg") {
				v[i] = -v[i]
			}
		case "small":
			v[i] = float64(rapid.IntRange(-8, 7).Draw(t, "v"))/8 + j
		case "zeros":
			if rapid.IntRange(0, 3).Draw(t, "zero") == 0 {
				v[i] = 0
			} else {
				v[i] = float64(rapid.IntRange(-24, 24).Draw(t, "v"))/8 + j
			}
		case "wild":
			switch rapid.IntRange(0, 3).Draw(t, "kind") {
			case 0:
				v[i] = float64(rapid.IntRange(-24, 24).Draw(t, "v"))/8 + j
			case 1:
				v[i] = float64(rapid.IntRange(-3, 3).Draw(t, "small"))
			default:
				m := rapid.SampledFrom(wildMags).Draw(t, "mag")
				f := float64(rapid.IntRange(1, 9).Draw(t, "digit"))
				v[i] = m * f
				if rapid.Bool().Draw(t, "neg") {
					v[i] = -v[i]
				}
			}
		case "mags":
			m := rapid.SampledFrom([]float64{1e-250, 1e-120, 1e-30, 1, 1, 1e30, 1e120}).Draw(t, "mag")
			v[i] = m * (float64(rapid.IntRange(1, 15).Draw(t, "digit"))/8 + j)
			if rapid.Bool().Draw(t, "neg") {
				v[i] = -v[i]
			}
		case "bits":
			switch rapid.IntRange(0, 2).Draw(t, "kind") {
			case 0:
				v[i] = float64(rapid.IntRange(-24, 24).Draw(t, "v"))/8 + j
			case 1:
				v[i] = float64(i + 1) // position code
			default:
				v[i] = rapid.SampledFrom(specialBits).Draw(t, "special")
			}
		default:
			panic("DrawValsMode: " + mode)
		}
	}
	return v
}

// Exponents of the single-operation checks: every small integer of either sign, larger ones
// around powers of two, and (positive bases only) fractions of either sign.
var powExpNonZeroWide = []float64{-65, -64, -17, -8, -7, -6, -5, -4, -3, -2, -1, 0, 1, 2, 3, 4, 5, 6, 7, 8, 17, 64, 65}
var powExpPosWide = append([]float64{-3.7, -2.5, -1.5, -0.5, -1.0 / 3, 0.1, 1.0 / 3, 0.5, 1.5, 2.5, 3.7}, powExpNonZeroWide...)

type single struct {
	t   *rapid.T
	cfg SingleCfg
	p   Program
}

func (s *single) leaf(shape []int, mode string) int {
	if s.cfg.Bits {
		mode = "bits"
	}
	if s.cfg.Mags && (mode == "std" || mode == "nonzero") {
		mode = "mags"
	}
	if s.cfg.Wild {
		if mode == "std" || mode == "zeros" || rapid.Bool().Draw(s.t, "wildanyway") {
			mode = "wild"
		}
	}
	v := DrawValsMode(s.t, ref.Prod(shape), len(s.p.Leaves), mode)
	s.p.Leaves = append(s.p.Leaves, Leaf{Shape: ref.Cp(shape), Vals: v, Via: DrawVia(s.t)})
	return len(s.p.Leaves) - 1
}

// GenSingle builds a program consisting of fresh leaves and one application of op with valid
// arguments (for the gradient regime also: operand values at which op is differentiable).
func GenSingle(t *rapid.T, op string, cfg SingleCfg) Program {
	s := &single{t: t, cfg: cfg}
	shape := func(minRank int) []int {
		return DrawShapeN(t, minRank, cfg.MaxRank, cfg.MaxDim, cfg.MaxElems, cfg.Distinct)
	}
	n := Node{Op: op}
	switch {
	case op == "scale":
		n.In = []int{s.leaf(shape(0), "std")}
		n.F = rapid.SampledFrom([]float64{-2, -1, -0.5, 0, 0.25, 0.5, 1, 1.5, 2, 3, 1e-3, 1e3}).Draw(t, "f")
	case op == "pow":
		switch rapid.IntRange(0, 2).Draw(t, "regime") {
		case 0:
			n.In = []int{s.leaf(shape(0), "pos")}
			n.F = rapid.SampledFrom(powExpPosWide).Draw(t, "p")
		case 1:
			n.In = []int{s.leaf(shape(0), "nonzero")}
			n.F = rapid.SampledFrom(powExpNonZeroWide).Draw(t, "p")
		default:
			n.In = []int{s.leaf(shape(0), "zeros")}
			n.F = rapid.SampledFrom([]float64{0, 1, 2, 3, 4}).Draw(t, "p")
		}
	case op == "log":
		n.In = []int{s.leaf(shape(0), "pos")}
	case op == "tan":
		n.In = []int{s.leaf(shape(0), "small")}
	case IsUnary(op):
		n.In = []int{s.leaf(shape(0), "std")}
	case isIn(op, Arith) || isIn(op, ElSel) || IsCmp(op):
		target := shape(0)
		sa, sb := target, target
		if cfg.Expand && isIn(op, Arith) {
			sa, sb = DrawBroadcastPair(t, target)
		}
		a := s.leaf(sa, "std")
		mode := "std"
		if op == "div" && !cfg.Wild {
			mode = "nonzero"
		}
		if ref.EqShape(sa, sb) && mode == "std" && rapid.IntRange(0, 7).Draw(t, "same") == 0 {
			n.In = []int{a, a}
		} else {
			n.In = []int{a, s.leaf(sb, mode)}
		}
	case op == "dot":
		target := shape(1)
		sa, sb := target, target
		if cfg.Expand {
			la, lb := DrawBroadcastPair(t, target[:len(target)-1])
			last := target[len(target)-1]
			sa, sb = append(la, last), append(lb, last)
		}
		a := s.leaf(sa, "std")
		if ref.EqShape(sa, sb) && rapid.IntRange(0, 7).Draw(t, "same") == 0 {
			n.In = []int{a, a}
		} else {
			n.In = []int{a, s.leaf(sb, "std")}
		}
	case op == "matmul":
		maxBatch := cfg.MaxRank - 2
		if maxBatch < 0 {
			maxBatch = 0
		}
		batch := DrawShapeN(t, 0, maxBatch, 3, 12, false)
		m := rapid.IntRange(1, 4).Draw(t, "m")
		k := rapid.IntRange(1, 4).Draw(t, "k")
		p := rapid.IntRange(1, 4).Draw(t, "p")
		if rapid.IntRange(0, 7).Draw(t, "longdim") == 0 {
			long := rapid.SampledFrom([]int{16, 17, 31, 32, 33, 48, 64, 65}).Draw(t, "long")
			switch rapid.IntRange(0, 2).Draw(t, "which") {
			case 0:
				m = long
			case 1:
				k = long
			default:
				p = long
			}
			batch = DrawShapeN(t, 0, 1, 2, 2, false)
		}
		if maxBatch >= 2 && rapid.IntRange(0, 9).Draw(t, "bigbatch") == 0 {
			batch = DrawShapeN(t, 2, maxBatch, 8, 160, true)
			m, k, p = rapid.IntRange(1, 2).Draw(t, "m2"), rapid.IntRange(1, 2).Draw(t, "k2"), rapid.IntRange(1, 2).Draw(t, "p2")
		}
		ba, bb := batch, batch
		if cfg.Expand {
			ba, bb = DrawBroadcastPair(t, batch)
		}
		a := s.leaf(append(ref.Cp(ba), m, k), "std")
		if m == k && k == p && ref.EqShape(ba, bb) && rapid.IntRange(0, 7).Draw(t, "same") == 0 {
			n.In = []int{a, a}
		} else {
			n.In = []int{a, s.leaf(append(ref.Cp(bb), k, p), "std")}
		}
	case IsAlong(op):
		sh := shape(1)
		n.In = []int{s.leaf(sh, "std")}
		n.I = rapid.IntRange(0, len(sh)-1).Draw(t, "dim")
	case op == "transpose":
		n.In = []int{s.leaf(shape(2), "std")}
	case op == "reshape":
		sh := shape(0)
		n.In = []int{s.leaf(sh, "std")}
		n.S = DrawFactorization(t, ref.Prod(sh), 6)
	case op == "unsqueeze":
		sh := shape(0)
		n.In = []int{s.leaf(sh, "std")}
		n.I = rapid.IntRange(0, len(sh)).Draw(t, "dim")
	case op == "squeeze":
		sh := shape(1)
		d := rapid.IntRange(0, len(sh)-1).Draw(t, "dim")
		sh[d] = 1
		n.In = []int{s.leaf(sh, "std")}
		n.I = d
	case op == "flatten":
		sh := shape(1)
		n.In = []int{s.leaf(sh, "std")}
		n.I = rapid.IntRange(0, len(sh)-1).Draw(t, "dim")
	case op == "broadcast":
		target := shape(0)
		n.In = []int{s.leaf(DrawBroadcastSrc(t, target), "std")}
		n.S = ref.Cp(target)
	case op == "slice":
		sh := shape(0)
		n.In = []int{s.leaf(sh, "std")}
		n.R = DrawIndex(t, sh)
	case op == "patch":
		dst := shape(0)
		src := make([]int, len(dst))
		for i := range src {
			src[i] = rapid.IntRange(1, dst[i]).Draw(t, "srcdim")
		}
		a := s.leaf(dst, "std")
		if ref.EqShape(src, dst) && rapid.IntRange(0, 3).Draw(t, "same") == 0 {
			n.In = []int{a, a}
		} else {
			n.In = []int{a, s.leaf(src, "std")}
		}
		n.R = DrawPatchIndex(t, src, dst)
	case op == "concat":
		base := shape(1)
		n.I = rapid.IntRange(0, len(base)-1).Draw(t, "dim")
		cnt := rapid.IntRange(2, 5).Draw(t, "count")
		if rapid.IntRange(0, 7).Draw(t, "manyoperands") == 0 {
			cnt = rapid.IntRange(6, 18).Draw(t, "countmany") // incl. many repeats of one operand
		}
		for len(n.In) < cnt {
			if len(n.In) > 0 && rapid.IntRange(0, 3).Draw(t, "reuse") == 0 {
				n.In = append(n.In, n.In[rapid.IntRange(0, len(n.In)-1).Draw(t, "which")])
				continue
			}
			sh := ref.Cp(base)
			sh[n.I] = rapid.IntRange(1, cfg.MaxDim).Draw(t, "catdim")
			n.In = append(n.In, s.leaf(sh, "std"))
		}
	default:
		panic("GenSingle: op " + op)
	}
	n.Twice = rapid.IntRange(0, 5).Draw(t, "twice") == 0
	s.p.Nodes = []Node{n}
	s.p.Disturb = rapid.IntRange(0, 3).Draw(t, "disturb") == 0
	s.p.UseResult = rapid.IntRange(0, 3).Draw(t, "useresult") == 0
	s.p.RejectFirst = rapid.IntRange(0, 3).Draw(t, "rejectfirst") == 0
	s.p.NoOpBP = rapid.IntRange(0, 5).Draw(t, "noopbp") == 0
	return s.p
}

// Ties forces exact ties between the two operands of a binary node with probability 1/3 per
// element (used by the forward checks of comparisons and ElMax/ElMin).
func Ties(t *rapid.T, p *Program) {
	n := p.Nodes[0]
	if len(n.In) != 2 || n.In[0] == n.In[1] {
		return
	}
	a, b := p.Leaves[n.In[0]], p.Leaves[n.In[1]]
	if !ref.EqShape(a.Shape, b.Shape) {
		return
	}
	for i := range a.Vals {
		if rapid.IntRange(0, 2).Draw(t, "tie") == 0 {
			b.Vals[i] = a.Vals[i]
		}
	}
}

// NearKink reports whether a value is within eps of 0.
func NearKink(v, eps float64) bool { return math.Abs(v) < eps }

// DrawVia draws the provenance of a leaf: mostly a plain TensorOf, otherwise one of the
// derivations of lib.NewVia.
func DrawVia(t *rapid.T) int {
	if rapid.IntRange(0, 2).Draw(t, "viaplain") > 0 {
		return 0
	}
	return rapid.IntRange(1, lib.NViaModes-1).Draw(t, "via")
}
