package prog

import (
	"encoding/json"
	"fmt"
	"math"
)

// F64s is a []float64 whose JSON form can carry NaN and infinities (as strings).
type F64s []float64

func (f F64s) MarshalJSON() ([]byte, error) {
	out := make([]any, len(f))
	for i, v := range f {
		switch {
		case math.IsNaN(v):
			out[i] = "NaN"
		case math.IsInf(v, 1):
			out[i] = "+Inf"
		case math.IsInf(v, -1):
			out[i] = "-Inf"
		default:
			out[i] = v
		}
	}
	return json.Marshal(out)
}

func (f *F64s) UnmarshalJSON(b []byte) error {
	var raw []any
	if err := json.Unmarshal(b, &raw); err != nil {
		return err
	}
	o := make(F64s, len(raw))
	for i, r := range raw {
		switch x := r.(type) {
		case float64:
			o[i] = x
		case string:
			switch x {
			case "NaN":
				o[i] = math.NaN()
			case "+Inf":
				o[i] = math.Inf(1)
			case "-Inf":
				o[i] = math.Inf(-1)
			case "-0":
				o[i] = math.Copysign(0, -1)
			default:
				return fmt.Errorf("bad float %q", x)
			}
		default:
			return fmt.Errorf("bad float %v", r)
		}
	}
	*f = o
	return nil
}
