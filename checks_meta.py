"""Per-property metadata of the checks: which tests to run, how many shards and cases per
tier, the stated non-triviality rule and oracle, assumptions, and the classes a run must have
produced for its verdict to count (otherwise the run is inconclusive, exit 2)."""

COMMON_ASSUMPTIONS = [
    "the harness uses only qeep's public API; the reference model (flat row-major tensors of forward-mode dual numbers, harness/ref) is trusted and self-tested against finite differences",
    "verdict is 'held on everything generated', not absence; size bounds are the harness's, listed in DESIGN.md",
]

META = {
    "C01": {
        "run": "^TestC01_",
        "shards": {"quick": 1, "thorough": 16},
        "scale": {"quick": 1.0, "thorough": 10.0},
        "rule": "generated: 1-3 op-DAGs (2-14 nodes each, 33 differentiable ops, value-aware so every op is valid and differentiable) over 1-4 shared leaves with random tracking, any node as root, random back-propagation order; plus diamond chains of depth 10-16 (20 thorough). non-trivial = an interior node with >= 2 consumer edges on tracked paths to the back-propagated root (fan-out / reconvergence), or any diamond chain; distinct by hash of the case JSON",
        "oracle": "gradient of every value == adjoint from forward-mode dual numbers on a flat reference model (sum over graphs for shared leaves), nil exactly on values outside the tracked ancestors of a root, BackPropagate returns nil; allocations(diamond chain) <= 40 x allocations(straight chain with the same operations)",
        "required_classes": ["c01.fanout_interior", "c01.multi_graph_shared_leaves", "c01.mixed_tracked_untracked_leaves", "c01.root_not_last", "c01.depth>=4", "c01.diamond_depth=12"],
        "technique": "property-based testing (rapid): value-aware DAG generation vs forward-mode dual-number reference model; allocation-count differential for bounded work",
        "level_text": "generated search over op-DAGs with fan-out, reconvergence, shared leaves and arbitrary roots against an independent dual-number oracle for every node's gradient; catches path-counting, accumulation and per-rule errors on graphs the suite never builds; cannot show absence beyond the generated sizes",
        "level_note": "trusted: the reference model in harness/ref (self-tested against finite differences), Go's runtime.MemStats for the work proxy",
        "assumptions": COMMON_ASSUMPTIONS + ["work is measured as heap allocations during BackPropagate (every tensor operation in a backward rule allocates), not wall time"],
    },
    "C02": {
        "run": "^TestC02_",
        "shards": {"quick": 1, "thorough": 16},
        "scale": {"quick": 1.0, "thorough": 8.0},
        "rule": "generated: one application of each of the 33 differentiable ops (op drawn per case, per-op counts in classes) to fresh leaves of rank 0..5, dims 1..4, <= 200 elements, no implicit expansion; every argument kind (every dim, random factorizations, explicit/omitted/{0,0}/partial index ranges, Patch sources at non-zero offsets, Concat of 2-5 operands incl. repeats, Pow exponents incl. base 0 with 0/1/2, same tensor as both operands); random non-empty tracked subset; non-uniform upstream weighting G. non-trivial = (operand rank >= 2 or partial/whole-dim index or interior dim or >= 3 Concat operands) and >= 2 result elements; distinct by hash of the case JSON",
        "oracle": "BackPropagate(y.Mul(G)) and BackPropagate(y) return nil; every tracked operand gets a finite gradient of exactly its shape equal to the dual-number derivative of <G, f(x)> (resp. sum f(x)); untracked operands get nil; forward value equals the reference",
        "required_classes": ["C02.op=" + o for o in ["slice", "patch", "transpose", "reshape", "unsqueeze", "squeeze", "flatten", "sumalong", "maxalong", "minalong", "avgalong", "varalong", "stdalong", "meanalong", "scale", "pow", "exp", "log", "sin", "cos", "tan", "sinh", "cosh", "tanh", "elmax", "elmin", "add", "sub", "mul", "div", "dot", "matmul", "concat"]] + ["C02.partial_index", "C02.dot_batched", "C02.matmul_batched", "C02.interior_dim", "C02.rank=5"],
        "technique": "property-based testing (rapid): per-operation argument generation vs forward-mode dual-number vector-Jacobian oracle",
        "level_text": "generated search over every differentiable op, operand rank 0..5, argument kind and tracked subset with a non-uniform upstream weighting, against an independent dual-number oracle; reaches ranks, partial indexes, batched Dot/MatMul and weightings the suite's constant rank<=2 cases cannot; no absence claim beyond generated sizes",
        "level_note": "trusted: reference model harness/ref; operand values are generated away from non-differentiable points (ties, |x|<0.2 for Log/Div/negative powers)",
        "assumptions": COMMON_ASSUMPTIONS + ["values within 1e-6 of a max/min tie or with standard deviation < 1e-3 are discarded and counted"],
    },
    "C07": {
        "run": "^TestC07_",
        "shards": {"quick": 1, "thorough": 16},
        "scale": {"quick": 1.0, "thorough": 8.0},
        "rule": "generated: explicit Broadcast (leading dims dropped and/or size-1 dims, factor 1 included) and Add/Sub/Mul/Div/Dot/MatMul on broadcast-compatible operand pairs (either or both operands expanded), ranks 0..5, non-uniform upstream G, random tracked subset. non-trivial = some operand is expanded by a factor > 1; distinct by hash of the case JSON",
        "oracle": "gradient of each tracked operand has the operand's own shape and equals the dual-number derivative w.r.t. the original operand (= sum of upstream gradient over all copies). Known finding D2 (mean instead of sum) is recognised only when the observed gradient equals the reference with each expansion's tangent scaled by exactly 1/k",
        "required_classes": ["C07.factor>1", "C07.factor=1", "C07.new_leading_dims", "C07.size1_dim_expanded", "C07.both_at_once", "C07.first_operand_expanded", "C07.second_operand_expanded"] + ["C07.op=" + o for o in ["broadcast", "add", "sub", "mul", "div", "dot", "matmul"]],
        "technique": "property-based testing (rapid): broadcast-pair generation vs dual-number reference; known-finding matcher for the averaged gradient",
        "level_text": "generated search over explicit and implicit expansions with non-uniform upstream gradients against the sum-over-copies oracle; shape and factor-1 cases must pass outright, the open finding D2 is matched exactly (mean = sum/k) so any other deviation is still a violation",
        "level_note": "trusted: reference model; the bcast_avg matcher (reference run with tangents scaled by 1/k at every expansion)",
        "assumptions": COMMON_ASSUMPTIONS,
    },
    "C03": {
        "run": "^TestC03_",
        "shards": {"quick": 1, "thorough": 16},
        "scale": {"quick": 1.0, "thorough": 10.0},
        "rule": "generated: one of Scale/Pow/Exp/Log/Sin/Cos/Tan/Sinh/Cosh/Tanh, Add/Sub/Mul/Div on broadcast-compatible pairs (either or both operands expand, several dims at once, lower-rank operand may have the larger dims), ElMax/ElMin, the six comparisons and Equals on ranks 0..6, dims 1..4; values: position-coded lattice, zeros, negatives, forced exact ties, magnitudes 1e-300..1e300 (Eq/Ne/Equals: identical or >= 7e-3 apart). non-trivial = both operands expand, or rank >= 3, or ties present for a comparison, or Equals true; distinct by hash of the case JSON",
        "oracle": "result shape = NumPy broadcast shape; every element equals the Go scalar function of the right-aligned operand elements (bit-exact for Scale/arithmetic/comparisons, -0==+0 for ElMax/ElMin, 1e-9 relative for transcendental functions); comparisons in {0,1}; Equals iff all positions equal; metamorphic: a.op(b) bit-identical to a.Broadcast(S).op(b.Broadcast(S))",
        "required_classes": ["C03.both_operands_expand", "C03.first_operand_expands", "C03.second_operand_expands", "C03.ties", "C03.equals_true", "C03.equals_false", "C03.rank=6"] + ["C03.op=" + o for o in ["scale", "pow", "exp", "log", "sin", "cos", "tan", "sinh", "cosh", "tanh", "add", "sub", "mul", "div", "elmax", "elmin", "eq", "ne", "gt", "ge", "lt", "le", "equals"]],
        "technique": "property-based testing (rapid): broadcast-pair generation vs flat reference model, plus implicit-vs-explicit broadcast metamorphic relation",
        "level_text": "generated search over element-wise ops with implicit broadcasting on ranks 0..6 against a flat index-arithmetic reference with position-coded values, so any carry, alignment or operand-order error changes an observable element",
        "level_note": "trusted: reference model; Go's math package as the definition of the scalar functions",
        "assumptions": COMMON_ASSUMPTIONS,
    },
    "C04": {
        "run": "^TestC04_",
        "shards": {"quick": 1, "thorough": 16},
        "scale": {"quick": 1.0, "thorough": 10.0},
        "rule": "generated: MatMul with m,k,p in 1..4 drawn independently and batch shapes of rank 0..4 built as broadcast-compatible pairs (either operand may lack or collapse batch dims), Dot on ranks 1..6 with broadcast leading dims, Transpose on ranks 2..6; position-coded distinct values. non-trivial = batch shapes differ (expansion) or m,k,p pairwise different or Transpose of rank >= 3; distinct by hash of the case JSON",
        "oracle": "result shape and every element equal the reference sum of products per broadcast batch index (1e-9 of the sum of |terms|); Transpose bit-exact; metamorphic on the library: A.Eye = A, Eye.B = B, (A.B)^T = B^T.A^T, Transpose(Transpose(A)) = A, Dot(a,b) = SumAlong(last)(a*b)",
        "required_classes": ["C04.batch_expanded", "C04.first_has_fewer_batch_dims", "C04.second_has_fewer_batch_dims", "C04.m_k_p_pairwise_different", "C04.op=dot", "C04.op=matmul", "C04.op=transpose", "C04.rank=6"],
        "technique": "property-based testing (rapid): batched shape generation vs flat reference model, plus algebraic identities as metamorphic relations",
        "level_text": "generated search over batched, broadcast MatMul/Dot/Transpose shapes up to rank 6 against an index-arithmetic reference and four algebraic identities",
        "level_note": "trusted: reference model",
        "assumptions": COMMON_ASSUMPTIONS,
    },
    "C05": {
        "run": "^TestC05_",
        "shards": {"quick": 1, "thorough": 16},
        "scale": {"quick": 1.0, "thorough": 10.0},
        "rule": "generated: Sum/Max/Min/Avg/Mean/Var/Std on ranks 0..6 and their Along forms on ranks 1..6 with every dim, dims 1..4 pairwise different where possible, size-1 dims, values: lattice, all-negative, all-positive, mixed magnitudes up to 1e6. non-trivial = (rank >= 3 and 0 < dim < rank-1) or a fibre / tensor of one element or all-negative data; distinct by hash of the case JSON",
        "oracle": "two-pass statistics per fibre addressed by index arithmetic: Max/Min exact, Sum/Avg within 1e-9 of sum|x|, Var within 1e-9*max|x|^2 (0 for one element), Std accordingly; Along shape = shape without dim; Avg == Mean bitwise; Std^2 == Var; Along form of a rank-1 tensor equals the scalar form",
        "required_classes": ["C05.interior_dim", "C05.fibre_length_1", "C05.all_negative", "C05.single_element", "C05.rank=6"] + ["C05.op=" + o for o in ["sum", "max", "min", "avg", "var", "std", "mean", "sumalong", "maxalong", "minalong", "avgalong", "varalong", "stdalong", "meanalong"]],
        "technique": "property-based testing (rapid): shape/dim generation vs two-pass reference statistics per fibre",
        "level_text": "generated search over every reduction, rank 0..6 and every dim with distinct dimension sizes against independent two-pass statistics, so a wrong dim, window carry, fold identity or n vs n-1 changes an observable number",
        "level_note": "trusted: the two-pass reference statistics in the check",
        "assumptions": COMMON_ASSUMPTIONS,
    },
    "C06": {
        "run": "^TestC06_",
        "shards": {"quick": 1, "thorough": 16},
        "scale": {"quick": 1.0, "thorough": 10.0},
        "rule": "generated: At at every valid multi-index of tensors of rank 0..6, Slice/Patch with every mix of explicit / omitted / {0,0} / shorter-than-rank ranges and every source size and offset, Concat of 2-5 operands (repeats included) along every dim, Reshape to random factorizations, Flatten/Squeeze/UnSqueeze at every dim, Broadcast, Full/Zeros/Ones/Eye(1..6)/TensorOf(depth 0..4); payloads are arbitrary bit patterns (NaN, +-Inf, -0, denormals, position codes). non-trivial = rank >= 3, or an index mixing explicit and omitted ranges, or a Patch at a non-zero offset, or Concat of >= 3 operands on an interior dim; distinct by hash of the case JSON",
        "oracle": "bit-exact agreement with index arithmetic on the flat reference; NElems == prod(Shape); round trips: Slice(block)(Patch(idx,s)) == s, Patch(idx, Slice(idx)(x)) == x, slicing a Concat returns each piece, Reshape(orig)(f(x)) == x and equal Flatten(0) sequences for every reshaping op",
        "required_classes": ["C06.mixed_explicit_omitted_ranges", "C06.patch_nonzero_offset", "C06.concat>=3_interior_dim", "C06.rank=6"] + ["C06.op=" + o for o in ["at", "slice", "patch", "concat", "reshape", "flatten", "squeeze", "unsqueeze", "broadcast", "full", "zeros", "ones", "eye", "tensorof"]],
        "technique": "property-based testing (rapid): index/shape argument generation vs flat reference model, plus round-trip relations",
        "level_text": "generated search over indexing, reshaping and construction with arbitrary payload bit patterns against index arithmetic and round trips",
        "level_note": "trusted: reference model; tensors of rank 5-6 are built by TensorOf+Reshape and read through At, which this check verifies against the flat values",
        "assumptions": COMMON_ASSUMPTIONS,
    },
}

# reasons for properties without a claimed check (kept current while checks are being built)
NOT_BUILT = {}
