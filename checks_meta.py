"""Per-property metadata of the checks: which tests to run, how many shards and cases per
tier, the stated non-triviality rule and oracle, assumptions, and the classes a run must have
produced for its verdict to count (otherwise the run is inconclusive, exit 2)."""

COMMON_ASSUMPTIONS = [
    "the harness uses only qeep's public API; the reference model (flat row-major tensors of forward-mode dual numbers, harness/ref) is trusted and self-tested against finite differences",
    "verdict is 'held on everything generated', not absence; size bounds are the harness's, listed in DESIGN.md",
]

META = {
    "C01": {
        "run": "^TestC01_",
        "shards": {"quick": 1, "thorough": 16},
        "scale": {"quick": 1.0, "thorough": 10.0},
        "rule": "generated: 1-3 op-DAGs (2-14 nodes each, 33 differentiable ops, value-aware so every op is valid and differentiable) over 1-4 shared leaves with random tracking, any node as root, random back-propagation order; plus diamond chains of depth 10-16 (20 thorough). non-trivial = an interior node with >= 2 consumer edges on tracked paths to the back-propagated root (fan-out / reconvergence), or any diamond chain; distinct by hash of the case JSON",
        "oracle": "gradient of every value == adjoint from forward-mode dual numbers on a flat reference model (sum over graphs for shared leaves), nil exactly on values outside the tracked ancestors of a root, BackPropagate returns nil; allocations(diamond chain) <= 40 x allocations(straight chain with the same operations)",
        "required_classes": ["c01.fanout_interior", "c01.multi_graph_shared_leaves", "c01.mixed_tracked_untracked_leaves", "c01.root_not_last", "c01.depth>=4", "c01.diamond_depth=12"],
        "technique": "property-based testing (rapid): value-aware DAG generation vs forward-mode dual-number reference model; allocation-count differential for bounded work",
        "level_text": "generated search over op-DAGs with fan-out, reconvergence, shared leaves and arbitrary roots against an independent dual-number oracle for every node's gradient; catches path-counting, accumulation and per-rule errors on graphs the suite never builds; cannot show absence beyond the generated sizes",
        "level_note": "trusted: the reference model in harness/ref (self-tested against finite differences), Go's runtime.MemStats for the work proxy",
        "assumptions": COMMON_ASSUMPTIONS + ["work is measured as heap allocations during BackPropagate (every tensor operation in a backward rule allocates), not wall time"],
    },
}

# reasons for properties without a claimed check (kept current while checks are being built)
NOT_BUILT = {}
