"""Per-property metadata of the checks: which tests to run, how many shards and cases per
tier, the stated non-triviality rule and oracle, assumptions, and the classes a run must have
produced for its verdict to count (otherwise the run is inconclusive, exit 2)."""

COMMON_ASSUMPTIONS = [
    "the harness uses only qeep's public API; the reference model (flat row-major tensors of forward-mode dual numbers, harness/ref) is trusted and self-tested against finite differences",
    "verdict is 'held on everything generated', not absence; size bounds are the harness's, listed in DESIGN.md",
]

META = {
    "C01": {
        "run": "^TestC01_",
        "shards": {"quick": 1, "thorough": 16},
        "scale": {"quick": 1.0, "thorough": 10.0},
        "rule": "generated: 1-3 op-DAGs (2-14 nodes each, 33 differentiable ops, value-aware so every op is valid and differentiable) over 1-4 shared leaves with random tracking, any node as root, random back-propagation order; plus diamond chains of depth 10-16 (20 thorough). non-trivial = an interior node with >= 2 consumer edges on tracked paths to the back-propagated root (fan-out / reconvergence), or any diamond chain; distinct by hash of the case JSON",
        "oracle": "gradient of every value == adjoint from forward-mode dual numbers on a flat reference model (sum over graphs for shared leaves), nil exactly on values outside the tracked ancestors of a root, BackPropagate returns nil; allocations(diamond chain) <= 40 x allocations(straight chain with the same operations)",
        "required_classes": ["c01.fanout_interior", "c01.multi_graph_shared_leaves", "c01.mixed_tracked_untracked_leaves", "c01.root_not_last", "c01.depth>=4", "c01.diamond_depth=12"],
        "technique": "property-based testing (rapid): value-aware DAG generation vs forward-mode dual-number reference model; allocation-count differential for bounded work",
        "level_text": "generated search over op-DAGs with fan-out, reconvergence, shared leaves and arbitrary roots against an independent dual-number oracle for every node's gradient; catches path-counting, accumulation and per-rule errors on graphs the suite never builds; cannot show absence beyond the generated sizes",
        "level_note": "trusted: the reference model in harness/ref (self-tested against finite differences), Go's runtime.MemStats for the work proxy",
        "assumptions": COMMON_ASSUMPTIONS + ["work is measured as heap allocations during BackPropagate (every tensor operation in a backward rule allocates), not wall time"],
    },
    "C02": {
        "run": "^TestC02_",
        "shards": {"quick": 1, "thorough": 16},
        "scale": {"quick": 1.0, "thorough": 8.0},
        "rule": "generated: one application of each of the 33 differentiable ops (op drawn per case, per-op counts in classes) to fresh leaves of rank 0..5, dims 1..4, <= 200 elements, no implicit expansion; every argument kind (every dim, random factorizations, explicit/omitted/{0,0}/partial index ranges, Patch sources at non-zero offsets, Concat of 2-5 operands incl. repeats, Pow exponents incl. base 0 with 0/1/2, same tensor as both operands); random non-empty tracked subset; non-uniform upstream weighting G. non-trivial = (operand rank >= 2 or partial/whole-dim index or interior dim or >= 3 Concat operands) and >= 2 result elements; distinct by hash of the case JSON",
        "oracle": "BackPropagate(y.Mul(G)) and BackPropagate(y) return nil; every tracked operand gets a finite gradient of exactly its shape equal to the dual-number derivative of <G, f(x)> (resp. sum f(x)); untracked operands get nil; forward value equals the reference",
        "required_classes": ["C02.op=" + o for o in ["slice", "patch", "transpose", "reshape", "unsqueeze", "squeeze", "flatten", "sumalong", "maxalong", "minalong", "avgalong", "varalong", "stdalong", "meanalong", "scale", "pow", "exp", "log", "sin", "cos", "tan", "sinh", "cosh", "tanh", "elmax", "elmin", "add", "sub", "mul", "div", "dot", "matmul", "concat"]] + ["C02.partial_index", "C02.dot_batched", "C02.matmul_batched", "C02.interior_dim", "C02.rank=5"],
        "technique": "property-based testing (rapid): per-operation argument generation vs forward-mode dual-number vector-Jacobian oracle",
        "level_text": "generated search over every differentiable op, operand rank 0..5, argument kind and tracked subset with a non-uniform upstream weighting, against an independent dual-number oracle; reaches ranks, partial indexes, batched Dot/MatMul and weightings the suite's constant rank<=2 cases cannot; no absence claim beyond generated sizes",
        "level_note": "trusted: reference model harness/ref; operand values are generated away from non-differentiable points (ties, |x|<0.2 for Log/Div/negative powers)",
        "assumptions": COMMON_ASSUMPTIONS + ["values within 1e-6 of a max/min tie or with standard deviation < 1e-3 are discarded and counted"],
    },
    "C07": {
        "run": "^TestC07_",
        "shards": {"quick": 1, "thorough": 16},
        "scale": {"quick": 1.0, "thorough": 8.0},
        "rule": "generated: explicit Broadcast (leading dims dropped and/or size-1 dims, factor 1 included) and Add/Sub/Mul/Div/Dot/MatMul on broadcast-compatible operand pairs (either or both operands expanded), ranks 0..5, non-uniform upstream G, random tracked subset. non-trivial = some operand is expanded by a factor > 1; distinct by hash of the case JSON",
        "oracle": "gradient of each tracked operand has the operand's own shape and equals the dual-number derivative w.r.t. the original operand (= sum of upstream gradient over all copies). Known finding D2 (mean instead of sum) is recognised only when the observed gradient equals the reference with each expansion's tangent scaled by exactly 1/k",
        "required_classes": ["C07.factor>1", "C07.factor=1", "C07.new_leading_dims", "C07.size1_dim_expanded", "C07.both_at_once", "C07.first_operand_expanded", "C07.second_operand_expanded"] + ["C07.op=" + o for o in ["broadcast", "add", "sub", "mul", "div", "dot", "matmul"]],
        "technique": "property-based testing (rapid): broadcast-pair generation vs dual-number reference; known-finding matcher for the averaged gradient",
        "level_text": "generated search over explicit and implicit expansions with non-uniform upstream gradients against the sum-over-copies oracle; shape and factor-1 cases must pass outright, the open finding D2 is matched exactly (mean = sum/k) so any other deviation is still a violation",
        "level_note": "trusted: reference model; the bcast_avg matcher (reference run with tangents scaled by 1/k at every expansion)",
        "assumptions": COMMON_ASSUMPTIONS,
    },
}

# reasons for properties without a claimed check (kept current while checks are being built)
NOT_BUILT = {}
