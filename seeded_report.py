#!/usr/bin/env python3
"""Writes seeded/README.md from seeded/*/meta.json, results.json and matrix.json."""
import json, os
ROOT = os.path.dirname(os.path.abspath(__file__))
S = os.path.join(ROOT, "seeded")
def load(n):
    try:
        return json.load(open(os.path.join(S, n)))
    except (OSError, ValueError):
        return {}
res, mx = load("results.json"), load("matrix.json")
import re
def natural(d):
    return [int(x) if x.isdigit() else x for x in re.split(r"(\d+)", d)]
ids = sorted((d for d in os.listdir(S) if os.path.isdir(os.path.join(S, d))), key=natural)
out = ["# Seeded changes", "",
       "Each directory holds `patch.diff` (the change), `demo_test.go` (fails with it, passes without it) and `meta.json` "
       "(property, what it needs to manifest, what was run to validate it). None of these is ever committed to /repo.", "",
       "| id | property | what the change does | needs | own quick check | also caught by (quick) |", "|---|---|---|---|---|---|"]
refs = []
for sid in ids:
    m = json.load(open(os.path.join(S, sid, "meta.json")))
    if m.get("kind") == "refactoring":
        refs.append((sid, m))
        continue
    # the newest verdict of the own check: the isolated-worktree matrix (re-run with the final
    # checks), else the earlier run with the patch applied to /repo itself
    own = mx.get(sid, {}).get("%s/quick" % m["property"], {}).get("verdict") or res.get(sid, {}).get("%s/quick" % m["property"], {}).get("verdict", "?")
    others = sorted(k.split("/")[0] for k, v in mx.get(sid, {}).items()
                    if isinstance(v, dict) and v.get("verdict") == "caught" and not k.startswith(m["property"] + "/"))
    clean = lambda t: " ".join(str(t).split()).replace("|", "/")
    out.append("| %s | %s | %s | %s | %s | %s |" % (sid, m["property"], clean(m.get("summary", ""))[:260], clean(m.get("needs", ""))[:220], own, " ".join(others) or "-"))
out += ["", "# Behaviour-preserving changes (false-alarm probes)", "",
        "Re-implementations that keep every property true; each was run against all 20 quick checks, which must stay silent.", "",
        "| id | what was re-implemented | observable differences that remain allowed | checks that raised an alarm |", "|---|---|---|---|"]
for sid, m in refs:
    clean = lambda t: " ".join(str(t).split()).replace("|", "/")
    alarms = sorted(k.split("/")[0] for k, v in mx.get(sid, {}).items() if isinstance(v, dict) and v.get("verdict") != "missed")
    out.append("| %s | %s | %s | %s |" % (sid, clean(m.get("summary", ""))[:300], clean(m.get("why_preserving", ""))[:300], " ".join(alarms) or "none"))
open(os.path.join(S, "README.md"), "w").write("\n".join(out) + "\n")
print("wrote", len(ids) - len(refs), "seeded changes and", len(refs), "refactorings")
